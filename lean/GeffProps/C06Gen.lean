import GeffProofs.StoreGuardGen
import GeffProofs.StoreGuardRead
import GeffProofs.KVCleanup
/-! # C06 (and the clean-up clause of C05) on the guard layer as it is written now

`Gen.StoreGuard` is regenerated from `geff/core_io/_utils.py` on every run (translator T19:
`remove_tilde`, `setup_zarr_group`, `delete_geff`, `check_for_geff`, statement by statement, over
the primitives of `GeffModel/PyDoStore.lean`).  The theorems below say that the generated functions
ARE the hand-written key-view model (`GeffModel/KV.lean`) — same mutations, same outcome, on every
store state, for every modelled store kind (str, Path, MemoryStore, LocalStore) given as an expanded
location (`Supported`; every entry point expands `~` before the guard:
`GeffProps.C06.guard_sees_the_location_the_writes_use`) — and transport the C06 / C05 theorems to
them.  `genWriteArrays` is `write_arrays` with the generated guard and clean-up in the places the
source has them (order tied by T6, `GeffProps.C06.guard_first_…`, `GeffProps.C05`). -/
namespace GeffProps.C06Gen
open Geff.KV Geff.KV.Prog Geff.PyDoStore Geff.StoreGuardGen Gen.Paths
open Gen.StoreGuard (checkForGeff deleteGeff setupZarrGroup removeTilde)

/-- the five functions were inside the translator's subset -/
theorem translated : Gen.StoreGuard.translationOk = true := by decide

/-- `check_for_geff` is called without a format and detects it; `delete_geff` / `setup_zarr_group`
default to zarr format 2 (every caller passes the format it writes) -/
theorem signature_defaults :
    Gen.StoreGuard.checkForGeffDefaultZarrFormat = none ∧
    Gen.StoreGuard.deleteGeffDefaultZarrFormat = some .v2 ∧
    Gen.StoreGuard.setupZarrGroupDefaultZarrFormat = some .v2 := by decide

/-- a store argument the hand-written model covers: str / Path / MemoryStore / LocalStore, a
home-relative location already expanded -/
def Supported (s : StoreRef) : Prop := s.unexpanded = false ∧ s.modelled = true

example : Supported (.str .no) ∧ Supported (.path .inner) ∧ Supported .memory ∧ Supported .localStore := by
  refine ⟨⟨rfl, rfl⟩, ⟨rfl, rfl⟩, ⟨rfl, rfl⟩, ⟨rfl, rfl⟩⟩

/-! ### generated = model -/

/-- `remove_tilde`: a location with a leading `~` is expanded (and becomes a `str`); afterwards no
location is unexpanded; the store kind is unchanged; performs no store operation — for EVERY argument -/
theorem removeTilde_eq_spec (d : Docs) (s : StoreRef) :
    removeTilde d s = Prog.pure (expand s) ∧ (expand s).unexpanded = false ∧ (expand s).kind = s.kind :=
  ⟨removeTilde_eq d s, expand_unexpanded s, expand_kind s⟩

/-- `setup_zarr_group(store, zarr_format=f)` performs exactly the mutations of the model's
`setupZarrGroup` (create the root group of format `f` iff it is not there) and returns the group of
the EXPANDED location in format `f` — for every store-like argument, expanded or not -/
theorem setupZarrGroup_eq_model (d : Docs) (s : StoreRef) (f : Fmt) (hl : storeLike s = true) :
    setupZarrGroup d s f = Prog.bind (Geff.KV.setupZarrGroup d f) (fun _ => Prog.pure ⟨expand s, f⟩) :=
  setupZarrGroup_eq d s f hl

/-- **`check_for_geff` = the model's `checkForGeff`**, on every store state, whatever `zarr_format`
it is handed (the argument is ignored), and it performs **no store mutation** -/
theorem checkForGeff_eq_model (d : Docs) (s : StoreRef) (zf : Option Fmt) (kv : KV) (hs : Supported s) :
    checkForGeff d s zf kv = ⟨[], .ok (Geff.KV.checkForGeff s.kind kv)⟩ :=
  checkForGeff_eq d s zf kv hs.1 hs.2

/-- **`delete_geff` = the model's `deleteGeff`** as a program: the same mutations in the same order
and the same outcome from every store state -/
theorem deleteGeff_eq_model (d : Docs) (s : StoreRef) (f : Fmt) (hs : Supported s) :
    deleteGeff d s f = Geff.KV.deleteGeff d s.kind f :=
  deleteGeff_eq d s f hs.1 hs.2

/-! ### C06 on the generated guard -/

/-- `check_for_geff` is read-only: the store afterwards is the store before -/
theorem C06Gen_check_read_only (d : Docs) (s : StoreRef) (zf : Option Fmt) (kv : KV) (hs : Supported s) :
    (checkForGeff d s zf kv).ops = [] ∧ Prog.final (checkForGeff d s zf) kv = kv := by
  rw [Prog.final, checkForGeff_eq_model d s zf kv hs]; exact ⟨rfl, rfl⟩

/-- an existing geff is detected **in either zarr format**, on every store kind -/
theorem C06Gen_check_detects (d : Docs) (s : StoreRef) (zf : Option Fmt) (f : Fmt) (kv : KV) (hs : Supported s)
    (h : HoldsGeff f kv) : (checkForGeff d s zf kv).val = .ok true := by
  rw [checkForGeff_eq_model d s zf kv hs, check_of_holds s.kind f kv h]

/-- the guard of `write_arrays` / `geff.write` / the converters, with the generated functions -/
def genGuard (d : Docs) (s : StoreRef) (f : Fmt) (overwrite : Bool) : Prog Unit :=
  Prog.bind (checkForGeff d s Gen.StoreGuard.checkForGeffDefaultZarrFormat) fun c =>
    if c then (if overwrite then deleteGeff d s f else Prog.raise .fileExists) else Prog.pure ()

theorem genGuard_eq (d : Docs) (s : StoreRef) (f : Fmt) (ow : Bool) (hs : Supported s) :
    genGuard d s f ow = guard d s.kind f ow := by
  funext kv
  rw [guard_eq, genGuard, bind_apply, checkForGeff_eq_model d s _ kv hs, deleteGeff_eq_model d s f hs]
  cases Geff.KV.checkForGeff s.kind kv <;> cases ow <;> simp [run_nil, res_eta] <;> rfl

/-- `write_arrays` with the generated guard and the generated clean-up handler -/
def genWriteArrays (d : Docs) (s : StoreRef) (f : Fmt) (g : G) (overwrite validate : Bool) : Prog Unit :=
  Prog.bind (genGuard d s f overwrite) fun _ =>
  Prog.bind (writeBody d s.kind f g) fun _ =>
    if validate && !g.valid then Prog.bind (Prog.attempt (deleteGeff d s f)) (fun _ => Prog.raise .valueError)
    else Prog.pure ()

theorem genWriteArrays_eq (d : Docs) (s : StoreRef) (f : Fmt) (g : G) (ow va : Bool) (hs : Supported s) :
    genWriteArrays d s f g ow va = writeArrays d s.kind f g ow va := by
  unfold genWriteArrays writeArrays validateAndCleanup
  rw [genGuard_eq d s f ow hs, deleteGeff_eq_model d s f hs]
  rfl

/-- (the model-level refusal, as `GeffProps.C06.C06_refuse_write_arrays`) -/
theorem refuse_of_model (d : Docs) (kind : Kind) (f : Fmt) (g : G) (validate : Bool) (kv : KV)
    (h : Geff.KV.checkForGeff kind kv = true) :
    (writeArrays d kind f g false validate kv).val = .error .fileExists ∧
    (writeArrays d kind f g false validate kv).ops = [] ∧
    run kv (writeArrays d kind f g false validate kv).ops = kv := by
  have hg := guard_eq d kind f false kv
  simp only [h, if_true, Bool.false_eq_true, if_false] at hg
  have hv : (guard d kind f false kv).val = .error .fileExists := by rw [hg]
  have ho : (guard d kind f false kv).ops = [] := by rw [hg]
  have h1 : (writeArrays d kind f g false validate kv).ops = [] := by
    unfold writeArrays; simp only [bind_def]; rw [ops_bind_err hv, ho]
  refine ⟨?_, h1, ?_⟩
  · unfold writeArrays; simp only [bind_def]; rw [val_bind_err hv]
  · simp [h1, run_nil]

/-- **C06, refusal, on the generated guard** — where the generated `check_for_geff` answers `True`
and overwrite is not requested, `write_arrays` raises `FileExistsError` and performs no store
mutation: the store afterwards is the store before -/
theorem C06Gen_refuse (d : Docs) (s : StoreRef) (f : Fmt) (g : G) (validate : Bool) (kv : KV) (hs : Supported s)
    (h : (checkForGeff d s none kv).val = .ok true) :
    (genWriteArrays d s f g false validate kv).val = .error .fileExists ∧
    (genWriteArrays d s f g false validate kv).ops = [] ∧
    Prog.final (genWriteArrays d s f g false validate) kv = kv := by
  rw [checkForGeff_eq_model d s none kv hs] at h
  have hc : Geff.KV.checkForGeff s.kind kv = true := by simpa using h
  rw [Prog.final, genWriteArrays_eq d s f g false validate hs]
  exact refuse_of_model d s.kind f g validate kv hc

/-- **overwrite = delete, then a fresh write** — what the generated `delete_geff` leaves of a store
holding a geff of format `f`: it succeeds, no geff-controlled key and no geff attribute is left (so the
guard of the following write finds nothing and nothing of the old graph can survive), every foreign
member is kept byte for byte -/
theorem C06Gen_delete_spec (d : Docs) (s : StoreRef) (f : Fmt) (kv : KV) (hs : Supported s) (h : HoldsGeff f kv)
    (hvis : s.kind = .path → ForeignVisible f kv) :
    (deleteGeff d s f kv).val = .ok () ∧
    ownedPart (Prog.final (deleteGeff d s f) kv) = [] ∧
    geffAttrIn f (Prog.final (deleteGeff d s f) kv) = none ∧
    foreignPart (Prog.final (deleteGeff d s f) kv) = foreignPart kv := by
  rw [Prog.final, deleteGeff_eq_model d s f hs]
  obtain ⟨h1, h2, h3, h4, _, _⟩ := deleteGeff_spec d s.kind f kv h hvis
  exact ⟨h1, h2, h3, h4⟩

/-- **C05, clean-up, on the generated `delete_geff`** — a write whose validation rejects the
completed store: afterwards `nodes` and `edges` are gone (no geff-controlled key), the geff attribute
is gone, every foreign member is there byte for byte, and the call ends with `ValueError` -/
theorem C05Gen_cleanup (d : Docs) (s : StoreRef) (f : Fmt) (g : G) (ow : Bool) (kv₀ : KV) (hs : Supported s)
    (hstart : CleanS f kv₀ ∨ (ow = true ∧ HoldsGeff f kv₀))
    (hvis : s.kind = .path → ForeignVisible f kv₀)
    (hcommit : (writeCommitted d s.kind f g ow kv₀).val = .ok ()) (hinv : g.valid = false) :
    let r := genWriteArrays d s f g ow true kv₀
    r.val = .error .valueError ∧
    ownedPart (run kv₀ r.ops) = [] ∧ geffAttrIn f (run kv₀ r.ops) = none ∧
    foreignPart (run kv₀ r.ops) = foreignPart kv₀ := by
  rw [genWriteArrays_eq d s f g ow true hs]
  exact cleanup_spec d s.kind f g ow kv₀ hstart hvis hcommit hinv

/-! ### non-vacuity -/

def exDocs : Docs := { zgroup := "zg", zattrs := "za", gjson := "gj", emptyOther := "{}" }
/-- a MemoryStore holding a format-3 geff next to a foreign array -/
def exV3 : KV := [(⟨[], .json⟩, .root (some "meta") "{}"), (⟨["raw"], .json⟩, .raw "r"),
                  (⟨[NODES], .json⟩, .raw "gj"), (⟨[NODES, IDS], .json⟩, .raw "n"),
                  (⟨[EDGES], .json⟩, .raw "gj"), (⟨[EDGES, IDS], .json⟩, .raw "e")]

example : (checkForGeff exDocs .memory none exV3) = ⟨[], .ok true⟩ := by rfl
example : (checkForGeff exDocs (.path .no) (some .v2) []) = ⟨[], .ok false⟩ := by rfl
/-- `delete_geff` on the format-3 store object: nodes/edges deleted key by key, then only the attribute -/
example : Prog.final (deleteGeff exDocs .memory .v3) exV3 =
    [(⟨[], .json⟩, .root none "{}"), (⟨["raw"], .json⟩, .raw "r")] := by decide +kernel
/-- an unexpanded home-relative location is outside `Supported`: `delete_geff` does not get through -/
example : errOf (deleteGeff exDocs (.str .home) .v2 []).val = some (.other "Unmodelled") := by decide +kernel


/-! ### the read-side entry functions: `_detect_zarr_spec_version`, `open_storelike` -/

open Gen.StoreGuard (detectZarrSpecVersion openStorelike)

example : Readable (.str .no) ∧ Readable (.path .inner) ∧ Readable .memory ∧ Readable .localStore ∧
    Readable (.objWithPath true false) := by
  refine ⟨⟨rfl, rfl⟩, ⟨rfl, rfl⟩, ⟨rfl, rfl⟩, ⟨rfl, rfl⟩, ⟨rfl, rfl⟩⟩

/-- **`_detect_zarr_spec_version` = `detectSpec`** on every store state, for every store-like argument
(str, Path, MemoryStore, LocalStore, other store objects) given as an expanded location: it never
raises, and returns what `detectSpec` says -/
theorem detectZarrSpecVersion_eq_spec (d : Docs) (s : StoreRef) (kv : KV) (hs : Readable s) :
    detectZarrSpecVersion d s kv = ⟨[], .ok (detectSpec s kv)⟩ := detect_eq d s kv hs

/-- which document decides: for a `str`/`Path`, `zarr.json` alone decides 3 — also when `.zgroup` is
there as well (both) —, otherwise `.zgroup` or `.zarray` decide 2, neither gives `None`; for a store
object the answer is the format of the root group zarr opens (3 preferred), `None` without one; and
on every kind of argument the answer agrees with the format `zarr.open_group` detects whenever
there is a root group -/
theorem detectSpec_cases (s : StoreRef) (kv : KV) :
    (isStrOrPath s = true → has kv ⟨[], .json⟩ = true → detectSpec s kv = some 3) ∧
    (isStrOrPath s = true → has kv ⟨[], .json⟩ = false →
        (has kv ⟨[], .zgroup⟩ = true ∨ has kv ⟨[], .zarray⟩ = true) → detectSpec s kv = some 2) ∧
    (isStrOrPath s = true → has kv ⟨[], .json⟩ = false → has kv ⟨[], .zgroup⟩ = false →
        has kv ⟨[], .zarray⟩ = false → detectSpec s kv = none) ∧
    (isStrOrPath s = false → detectSpec s kv = (rootGroupFmt kv).map fmtNum) ∧
    (∀ f, rootGroupFmt kv = some f → detectSpec s kv = some (fmtNum f)) := by
  refine ⟨?_, ?_, ?_, ?_, ?_⟩
  · intro h1 h2; simp [detectSpec, h1, h2]
  · intro h1 h2 h3; rcases h3 with h3 | h3 <;> simp [detectSpec, h1, h2, h3]
  · intro h1 h2 h3 h4; simp [detectSpec, h1, h2, h3, h4]
  · intro h1; simp [detectSpec, h1]
  · intro f hf
    unfold rootGroupFmt at hf
    cases hp : isStrOrPath s <;> cases hj : has kv ⟨[], .json⟩ <;> cases hg : has kv ⟨[], .zgroup⟩ <;>
      simp [hj, hg] at hf <;> subst hf <;> simp [detectSpec, rootGroupFmt, hp, hj, hg, fmtNum]

/-- `_detect_zarr_spec_version` performs **no store mutation** — on every argument and store state,
without hypothesis -/
theorem detectZarrSpecVersion_read_only (d : Docs) (s : StoreRef) (kv : KV) :
    (detectZarrSpecVersion d s kv).ops = [] ∧ Prog.final (detectZarrSpecVersion d s) kv = kv := by
  have h := detect_ops d s kv
  exact ⟨h, by rw [Prog.final, h]; rfl⟩

/-- **`open_storelike` = `openSpec`**: `FileNotFoundError` for a `str`/`Path` location that does not
exist, the root group (zarr format detected) when there is one, `ValueError` when the store holds no
root group — on every store state, for every store-like argument -/
theorem openStorelike_eq_spec (d : Docs) (s : StoreRef) (kv : KV) (hs : Readable s) :
    openStorelike d s kv = ⟨[], openSpec s kv⟩ := openStorelike_eq d s kv hs

/-- **`open_storelike` is read-only** — the entry of every read-side function performs no store
mutation, on every argument and every store state (no hypothesis): the store afterwards is the
store before.  (Stated on the generated function so that C18 can import it.) -/
theorem openStorelike_read_only (d : Docs) (s : StoreRef) (kv : KV) :
    (openStorelike d s kv).ops = [] ∧ Prog.final (openStorelike d s) kv = kv := by
  have h := openStorelike_ops d s kv
  exact ⟨h, by rw [Prog.final, h]; rfl⟩

/-- a format-3 geff in a MemoryStore is opened as a format-3 group; an empty MemoryStore and a missing
path are refused with the documented exceptions -/
example : openStorelike exDocs .memory exV3 = ⟨[], .ok ⟨.memory, .v3⟩⟩ := by rfl
example : errOf (openStorelike exDocs .memory []).val = some .valueError := by decide +kernel
example : errOf (openStorelike exDocs (.path .no) []).val = some (.other "FileNotFoundError") := by decide +kernel
example : detectZarrSpecVersion exDocs (.str .no) exV3 = ⟨[], .ok (some 3)⟩ := by rfl

end GeffProps.C06Gen
