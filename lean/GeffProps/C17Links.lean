import GeffProps.C09Links
import GeffProofs.LinkStoreDf
/-! # C17 ← C09 / C01 — the table export of a written graph

`GeffProps/C17.lean` proves the table export correct for every in-memory geff satisfying `WF` — described
there as "what `read_to_memory` hands over" (one row per node / edge in every property array, `prod trail`
entries per row, one mask flag per element).  Here that hypothesis is discharged for what C01's model of
`read_to_memory` returns on a store written by C01's model of `write_arrays` (through the translation of
link C09 ← C01 and `Geff.Link.dfOf`, `GeffProofs/LinkStoreDf.lean`): the export raises nothing and — when
no two sources claim one column name (`NoCollision`, as in `C17_rows`; known finding
`C17:id-column-collision` otherwise) — lists exactly the **written** node ids and edges, one row each, in
written order, every column of full length. -/
namespace GeffProps.C17Links
open Geff.Np Geff.Store Geff.WR Geff.Link Geff.Dataframe

/-- **C17 ∘ C01**: write a well-formed graph (hypotheses of C01's validated round trip, integer-valued id
arrays `ids` / `es`), read it back with C01's `read_to_memory` model, hand the result to C17's model of
`geff_to_dataframes`: the input is `WF`, the export succeeds, and without a column-name collision the node
table starts with the column `id` holding exactly the written ids, the edge table with `source` / `target`
holding exactly the written edges, and every column has one cell per written node (edge). -/
theorem C17_export_of_written (s0 : St) (g : InMem) (md : CallerMeta) (n e : Nat) (nps eps : Props)
    (hfresh : Fresh s0) (hwf : WFGeff g n e nps eps) (hax : Geff.Bridge.AxesStrict md n nps)
    (hmdN : ∀ kv ∈ md.nodeProps, kv.1 ∈ (expectedNodeProps md n nps).map (·.1))
    (hmdE : ∀ kv ∈ md.edgeProps, kv.1 ∈ eps.map (·.1))
    (ids : List Int) (hids : intsOf g.nodeIds.flat = some ids)
    (es : List (Int × Int)) (hes : (intsOf g.edgeIds.flat).bind pairsOf = some es) :
    ∃ s' r full, writeArrays vlenCodec Geff.Bridge.validate s0 g md = .ok s' ∧
      readToMemory vlenCodec Geff.Bridge.validate s' = .ok r ∧ memOf r = some full ∧
      full.nodeIds = ids ∧ full.edgeIds = es ∧ ids.length = n ∧ es.length = e ∧
      GeffProps.C17.WF (dfOf full) ∧
      (∃ t, geffToDataframes (dfOf full) = .ok t) ∧
      (GeffProps.C17.NoCollision (dfOf full) →
        ∃ t, geffToDataframes (dfOf full) = .ok t ∧
          t.nodes.head? = some ("id", (ids.map idTok).map Cell.val) ∧
          (∀ c ∈ t.nodes, c.2.length = n) ∧
          t.edges.take 2 = [("source", (es.map (fun ed => (idTok ed.1, idTok ed.2))).map (fun ed => Cell.val ed.1)),
                            ("target", (es.map (fun ed => (idTok ed.1, idTok ed.2))).map (fun ed => Cell.val ed.2))] ∧
          (∀ c ∈ t.edges, c.2.length = e)) := by
  obtain ⟨s', r, S, full, hw, hrd, _, _, hfull, hSwf, hSi, hSe, hidn, hesn, hpread, _, _⟩ :=
    GeffProps.C09Links.C09_full_read_is_C01_read s0 g md n e nps eps hfresh hwf hax hmdN hmdE ids hids es hes
  obtain ⟨s'', r', hw', hrd', _, _, _, _, _, _, _, hpn, hpe⟩ := roundtrip_exact s0 g md n e nps eps hfresh hwf hax hmdN hmdE
  rw [hw] at hw'
  cases hw'
  rw [hrd] at hrd'
  cases hrd'
  obtain ⟨fp, fe, _, _, hfe⟩ := Geff.PRead.full_read_spec castId S full hSwf hpread
  have hfi : full.nodeIds = ids := by rw [hfe]; exact hSi
  have hfed : full.edgeIds = es := by rw [hfe]; exact hSe
  have hrows := expected_rows md n nps hwf.nodeNames hwf.nodeOK
  have hdf := df_wf_of_written n e (expectedNodeProps md n nps) eps r full hfull hpn hpe hrows
    (fun kp hm => (hwf.edgeOK kp hm).2) (by rw [hfi, hidn]) (by rw [hfed, hesn])
  refine ⟨s', r, full, hw, hrd, hfull, hfi, hfed, hidn, hesn, hdf, GeffProps.C17.C17_total _ hdf, ?_⟩
  intro hnc
  obtain ⟨t, ht, h1, h2, h3, h4⟩ := GeffProps.C17.C17_rows (dfOf full) hdf hnc
  refine ⟨t, ht, ?_, ?_, ?_, ?_⟩
  · rw [h1]; simp only [dfOf, hfi]
  · intro c hc; rw [h2 c hc]; simp [dfOf, hfi, hidn]
  · rw [h3]; simp only [dfOf, hfed]
  · intro c hc; rw [h4 c hc]; simp [dfOf, hfed, hesn]

/-! ## non-vacuity: C01's example graph written, read back and exported in the models -/

def exTables : Option (Tables Tok) :=
  match writeArrays vlenCodec Geff.Bridge.validate GeffProps.C01.exS0 GeffProps.C01.exG GeffProps.C01.exMd with
  | .ok s' =>
    match readToMemory vlenCodec Geff.Bridge.validate s' with
    | .ok r =>
      match (memOf r).map (fun full => geffToDataframes (dfOf full)) with
      | some (.ok t) => some t
      | _ => none
    | .error _ => none
  | .error _ => none

/-- the written ids 2^64-1, 0 and the edge (0, 2^64-1) head the tables; the 2×2 float32 property becomes two
columns, masked in row 0; the var-length property one column of arrays -/
example : exTables.map (fun t => t.nodes.map (·.1)) = some ["id", "t", "poly", "values_0", "values_1"] := by
  decide +kernel

example : exTables.map (fun t => t.nodes.take 1) =
    some [("id", [Cell.val (idTok 18446744073709551615), Cell.val (idTok 0)])] := by decide +kernel

example : exTables.map (fun t => t.edges) =
    some [("source", [Cell.val (idTok 0)]), ("target", [Cell.val (idTok 18446744073709551615)])] := by
  decide +kernel

example : exTables.bind (fun t => (t.nodes.find? (fun c => c.1 = "values_1")).map (·.2)) =
    some [Cell.nan, Cell.val (.sc (.f "33800000"))] := by decide +kernel

end GeffProps.C17Links
