import Mathlib.Logic.Relation
open Relation
#check @Relation.ReflTransGen.mono
#check @ReflTransGen.mono
