import Mathlib.Logic.Relation
import GeffProofs.Reach
import GeffProofs.Lineage
import GeffModel.Tracklet

set_option linter.unusedSectionVars false
namespace Geff.Tracklet
open Geff.Graph Geff.Lineage Relation
variable {α L : Type} [DecidableEq α] [DecidableEq L]

/-! ## list lemmas about `dedup` -/
theorem dedup_eq_nil (l : List α) : dedup l = [] ↔ l = [] := by
  cases l <;> simp [dedup]

theorem dedup_eq_singleton_iff (l : List α) (b : α) :
    dedup l = [b] ↔ l ≠ [] ∧ ∀ x ∈ l, x = b := by
  cases l with
  | nil => simp [dedup]
  | cons x xs =>
    simp only [dedup, List.cons.injEq, List.filter_eq_nil_iff, mem_dedup, ne_eq, decide_not,
      Bool.not_eq_eq_eq_not, Bool.not_true, decide_eq_false_iff_not, Decidable.not_not,
      reduceCtorEq, not_false_eq_true, List.mem_cons, forall_eq_or_imp, true_and]
    constructor
    · rintro ⟨rfl, h⟩; exact ⟨rfl, h⟩
    · rintro ⟨rfl, h⟩; exact ⟨rfl, h⟩

theorem length_dedup_eq_zero (l : List α) : (dedup l).length = 0 ↔ l = [] := by
  rw [List.length_eq_zero_iff, dedup_eq_nil]

theorem length_dedup_eq_one (l : List α) :
    (dedup l).length = 1 ↔ ∃ b, l ≠ [] ∧ ∀ x ∈ l, x = b := by
  rw [List.length_eq_one_iff]
  exact exists_congr fun b => dedup_eq_singleton_iff l b

theorem length_dedup_le_one (l : List α) :
    ¬ 1 < (dedup l).length ↔ ∀ x ∈ l, ∀ y ∈ l, x = y := by
  constructor
  · intro h x hx y hy
    have h1 : (dedup l).length = 1 := by
      have : (dedup l).length ≠ 0 := by
        rw [Ne, length_dedup_eq_zero]; rintro rfl; simp at hx
      omega
    obtain ⟨b, _, hb⟩ := (length_dedup_eq_one l).1 h1
    rw [hb x hx, hb y hy]
  · intro h
    cases l with
    | nil => simp [dedup]
    | cons a t =>
      have : (dedup (a :: t)).length = 1 :=
        (length_dedup_eq_one _).2 ⟨a, by simp, fun x hx => h x hx a (by simp)⟩
      omega

/-! ## membership in the model's lists -/
theorem mem_succs (es : List (α × α)) (u w : α) : w ∈ succs es u ↔ (u, w) ∈ es := by
  unfold succs
  simp only [mem_dedup, List.mem_map, List.mem_filter, decide_eq_true_eq]
  constructor
  · rintro ⟨⟨a, b⟩, ⟨hm, rfl⟩, rfl⟩; exact hm
  · intro h; exact ⟨(u, w), ⟨h, rfl⟩, rfl⟩

theorem mem_preds (es : List (α × α)) (v w : α) : w ∈ preds es v ↔ (w, v) ∈ es := by
  unfold preds
  simp only [mem_dedup, List.mem_map, List.mem_filter, decide_eq_true_eq]
  constructor
  · rintro ⟨⟨a, b⟩, ⟨hm, rfl⟩, rfl⟩; exact hm
  · intro h; exact ⟨(w, v), ⟨h, rfl⟩, rfl⟩

theorem mem_inner (es : List (α × α)) (C : List α) (a b : α) :
    (a, b) ∈ inner es C ↔ (a, b) ∈ es ∧ a ∈ C ∧ b ∈ C := by
  unfold inner; simp

/-! ## Prop-level vocabulary (docs/tracking.md) -/
/-- directed edge relation -/
def E (es : List (α × α)) (a b : α) : Prop := (a, b) ∈ es
/-- *tracklet edge*: the only edge leaving its source and the only edge entering its target -/
def T (es : List (α × α)) (a b : α) : Prop :=
  E es a b ∧ (∀ w, E es a w → w = b) ∧ (∀ w, E es w b → w = a)
def symT (es : List (α × α)) (a b : α) : Prop := T es a b ∨ T es b a
/-- edge between two nodes carrying tracklet id `t` -/
def ES (nl : List (α × L)) (es : List (α × α)) (t : L) (a b : α) : Prop :=
  E es a b ∧ (a, t) ∈ nl ∧ (b, t) ∈ nl
def AdjS (nl : List (α × L)) (es : List (α × α)) (t : L) (a b : α) : Prop :=
  ES nl es t a b ∨ ES nl es t b a

/-- The nodes carrying id `t` form a maximal unbranched path: every edge among them is a tracklet
edge, they are connected through such edges, and no tracklet edge leaves or enters the class. -/
structure GoodTracklet (nl : List (α × L)) (es : List (α × α)) (t : L) : Prop where
  inner_T : ∀ a b, ES nl es t a b → T es a b
  connected : ∀ a b, (a, t) ∈ nl → (b, t) ∈ nl → ReflTransGen (AdjS nl es t) a b
  maximal : ∀ a b, T es a b → ((a, t) ∈ nl ↔ (b, t) ∈ nl)

theorem succs_length_one_iff (es : List (α × α)) (a b : α) (hab : E es a b) :
    (succs es a).length = 1 ↔ ∀ w, E es a w → w = b := by
  unfold succs
  rw [length_dedup_eq_one]
  have hb : b ∈ (es.filter (fun e => e.1 = a)).map (·.2) := by
    have := (mem_succs es a b).2 hab
    unfold succs at this; exact (mem_dedup _ _).1 this
  constructor
  · rintro ⟨c, _, hc⟩ w hw
    have hw' : w ∈ (es.filter (fun e => e.1 = a)).map (·.2) := by
      have := (mem_succs es a w).2 hw
      unfold succs at this; exact (mem_dedup _ _).1 this
    rw [hc w hw', hc b hb]
  · intro h
    refine ⟨b, List.ne_nil_of_mem hb, fun x hx => h x ?_⟩
    have : x ∈ succs es a := by unfold succs; exact (mem_dedup _ _).2 hx
    exact (mem_succs es a x).1 this

theorem preds_length_one_iff (es : List (α × α)) (a b : α) (hab : E es a b) :
    (preds es b).length = 1 ↔ ∀ w, E es w b → w = a := by
  unfold preds
  rw [length_dedup_eq_one]
  have hb : a ∈ (es.filter (fun e => e.2 = b)).map (·.1) := by
    have := (mem_preds es b a).2 hab
    unfold preds at this; exact (mem_dedup _ _).1 this
  constructor
  · rintro ⟨c, _, hc⟩ w hw
    have hw' : w ∈ (es.filter (fun e => e.2 = b)).map (·.1) := by
      have := (mem_preds es b w).2 hw
      unfold preds at this; exact (mem_dedup _ _).1 this
    rw [hc w hw', hc a hb]
  · intro h
    refine ⟨a, List.ne_nil_of_mem hb, fun x hx => h x ?_⟩
    have : x ∈ preds es b := by unfold preds; exact (mem_dedup _ _).2 hx
    exact (mem_preds es b x).1 this

theorem succs_eq_singleton_iff (es : List (α × α)) (a b : α) :
    succs es a = [b] ↔ E es a b ∧ ∀ w, E es a w → w = b := by
  constructor
  · intro h
    have hb : b ∈ succs es a := by rw [h]; simp
    refine ⟨(mem_succs es a b).1 hb, fun w hw => ?_⟩
    have : w ∈ succs es a := (mem_succs es a w).2 hw
    rw [h] at this; simpa using this
  · rintro ⟨hab, h⟩
    unfold succs
    rw [dedup_eq_singleton_iff]
    have hb : b ∈ succs es a := (mem_succs es a b).2 hab
    unfold succs at hb
    refine ⟨List.ne_nil_of_mem ((mem_dedup _ _).1 hb), fun x hx => h x ?_⟩
    have : x ∈ succs es a := by unfold succs; exact (mem_dedup _ _).2 hx
    exact (mem_succs es a x).1 this

theorem preds_eq_singleton_iff (es : List (α × α)) (a b : α) :
    preds es b = [a] ↔ E es a b ∧ ∀ w, E es w b → w = a := by
  constructor
  · intro h
    have hb : a ∈ preds es b := by rw [h]; simp
    refine ⟨(mem_preds es b a).1 hb, fun w hw => ?_⟩
    have : w ∈ preds es b := (mem_preds es b w).2 hw
    rw [h] at this; simpa using this
  · rintro ⟨hab, h⟩
    unfold preds
    rw [dedup_eq_singleton_iff]
    have hb : a ∈ preds es b := (mem_preds es b a).2 hab
    unfold preds at hb
    refine ⟨List.ne_nil_of_mem ((mem_dedup _ _).1 hb), fun x hx => h x ?_⟩
    have : x ∈ preds es b := by unfold preds; exact (mem_dedup _ _).2 hx
    exact (mem_preds es b x).1 this


/-! ## a weakly connected digraph with out-degree ≤ 1 has at most one sink (dually: source) -/
omit [DecidableEq α] in
theorem reaches_of_conn (es : List (α × α))
    (hfun : ∀ a b c, (a, b) ∈ es → (a, c) ∈ es → b = c)
    (u : α) (hu : ∀ b, (u, b) ∉ es) :
    ∀ x, Conn es u x → ReflTransGen (E es) x u := by
  intro x hx
  induction hx with
  | refl => exact ReflTransGen.refl
  | @tail b c _ hbc ih =>
    rcases hbc with h | h
    · rcases ReflTransGen.cases_head ih with hbu | ⟨y, hby, hyu⟩
      · subst hbu; exact absurd h (hu _)
      · have : y = c := hfun _ _ _ hby h
        subst this; exact hyu
    · exact ReflTransGen.head h ih

theorem sink_unique (es : List (α × α))
    (hfun : ∀ a b c, (a, b) ∈ es → (a, c) ∈ es → b = c)
    (u e : α) (hu : ∀ b, (u, b) ∉ es) (he : ∀ b, (e, b) ∉ es)
    (hconn : Conn es u e) : e = u := by
  have h := reaches_of_conn es hfun u hu e hconn
  rcases ReflTransGen.cases_head h with h | ⟨y, hey, _⟩
  · exact h
  · exact absurd hey (he y)

theorem conn_swap (es : List (α × α)) {a b : α} (h : Conn es a b) :
    Conn (es.map Prod.swap) a b := by
  induction h with
  | refl => exact ReflTransGen.refl
  | @tail x y _ hxy ih =>
    refine ih.tail ?_
    unfold Adj at *
    rcases hxy with h | h
    · right; exact List.mem_map.2 ⟨(x, y), h, rfl⟩
    · left; exact List.mem_map.2 ⟨(y, x), h, rfl⟩

theorem source_unique (es : List (α × α))
    (hfun : ∀ a b c, (b, a) ∈ es → (c, a) ∈ es → b = c)
    (u e : α) (hu : ∀ b, (b, u) ∉ es) (he : ∀ b, (b, e) ∉ es)
    (hconn : Conn es u e) : e = u := by
  have hsw : ∀ x y, (x, y) ∈ es.map Prod.swap ↔ (y, x) ∈ es := by
    intro x y
    simp only [List.mem_map, Prod.exists, Prod.swap_prod_mk, Prod.mk.injEq]
    constructor
    · rintro ⟨a, b, h, rfl, rfl⟩; exact h
    · intro h; exact ⟨y, x, h, rfl, rfl⟩
  apply sink_unique (es.map Prod.swap) _ u e _ _ (conn_swap es hconn)
  · intro a b c h1 h2; exact hfun a b c ((hsw _ _).1 h1) ((hsw _ _).1 h2)
  · intro b h; exact hu b ((hsw _ _).1 h)
  · intro b h; exact he b ((hsw _ _).1 h)

/-! ## Kahn elimination -/
omit [DecidableEq α] in
theorem exists_min (f : α → Nat) (l : List α) (h : l ≠ []) : ∃ v ∈ l, ∀ w ∈ l, f v ≤ f w := by
  induction l with
  | nil => exact absurd rfl h
  | cons a t ih =>
    by_cases ht : t = []
    · subst ht; exact ⟨a, by simp, by simp⟩
    · obtain ⟨v, hv, hmin⟩ := ih ht
      by_cases hav : f a ≤ f v
      · refine ⟨a, by simp, ?_⟩
        intro w hw
        rcases List.mem_cons.1 hw with rfl | hw
        · exact Nat.le_refl _
        · exact Nat.le_trans hav (hmin w hw)
      · refine ⟨v, List.mem_cons_of_mem _ hv, ?_⟩
        intro w hw
        rcases List.mem_cons.1 hw with rfl | hw
        · omega
        · exact hmin w hw

/-- a graph with a rank function strictly increasing along its edges passes Kahn's test -/
theorem kahn_of_rank (es : List (α × α)) (rank : α → Nat) (hr : ∀ e ∈ es, rank e.1 < rank e.2) :
    ∀ (n : Nat) (vs : List α), vs.length ≤ n → kahn es n vs = true := by
  intro n
  induction n with
  | zero =>
    intro vs h
    have : vs = [] := List.eq_nil_of_length_eq_zero (by omega)
    subst this; rfl
  | succ n ih =>
    intro vs h
    unfold kahn
    split
    · rename_i hnone
      cases vs with
      | nil => rfl
      | cons a t =>
        exfalso
        obtain ⟨v, hv, hmin⟩ := exists_min rank (a :: t) (by simp)
        have := List.find?_eq_none.1 hnone v hv
        simp only [Bool.not_eq_true', Bool.not_eq_false, List.any_eq_true, decide_eq_true_eq] at this
        obtain ⟨e, he, h2, h1⟩ := this
        have := hr e he
        have := hmin e.1 h1
        rw [h2] at *
        omega
    · rename_i v hsome
      apply ih
      have hv : v ∈ vs := List.mem_of_find?_eq_some hsome
      have : (vs.filter (· ≠ v)).length < vs.length :=
        List.length_filter_lt_length_iff_exists.2 ⟨v, hv, by simp⟩
      omega

/-- if Kahn's test passes on a non-empty vertex list, some vertex has no incoming edge from it … -/
theorem source_of_kahn (es : List (α × α)) (n : Nat) (vs : List α) (hne : vs ≠ [])
    (h : kahn es (n + 1) vs = true) :
    ∃ v ∈ vs, ∀ e ∈ es, e.2 = v → e.1 ∉ vs := by
  unfold kahn at h
  split at h
  · cases vs with
    | nil => exact absurd rfl hne
    | cons a t => simp at h
  · rename_i v hsome
    refine ⟨v, List.mem_of_find?_eq_some hsome, ?_⟩
    have := List.find?_some hsome
    simp only [Bool.not_eq_true', List.any_eq_false, decide_eq_true_eq, not_and] at this
    intro e he h2; exact this e he h2

/-- … and some vertex has no outgoing edge into it -/
theorem sink_of_kahn (es : List (α × α)) :
    ∀ (n : Nat) (vs : List α), vs ≠ [] → kahn es n vs = true →
      ∃ v ∈ vs, ∀ e ∈ es, e.1 = v → e.2 ∉ vs := by
  intro n
  induction n with
  | zero =>
    intro vs hne h
    cases vs with
    | nil => exact absurd rfl hne
    | cons a t => simp [kahn] at h
  | succ n ih =>
    intro vs hne h
    unfold kahn at h
    split at h
    · cases vs with
      | nil => exact absurd rfl hne
      | cons a t => simp at h
    · rename_i u hsome
      have hu : u ∈ vs := List.mem_of_find?_eq_some hsome
      have hsrc := List.find?_some hsome
      simp only [Bool.not_eq_true', List.any_eq_false, decide_eq_true_eq, not_and] at hsrc
      by_cases hemp : vs.filter (· ≠ u) = []
      · refine ⟨u, hu, ?_⟩
        intro e he h1 h2
        have : e.2 = u := by
          have := List.filter_eq_nil_iff.1 hemp e.2 h2
          simpa using this
        exact hsrc e he this (h1 ▸ hu)
      · obtain ⟨v, hv, hsink⟩ := ih _ hemp h
        have hv' := List.mem_filter.1 hv
        refine ⟨v, hv'.1, ?_⟩
        intro e he h1 h2
        by_cases h3 : e.2 = u
        · exact hsrc e he h3 (h1 ▸ hv'.1)
        · exact hsink e he h1 (List.mem_filter.2 ⟨h2, by simpa using h3⟩)


/-! ## shape of the model's control flow -/
theorem checkEnds_ok_iff (es : List (α × α)) (s e : α) :
    checkEnds es s e = .ok ↔
      (¬ ∃ p, preds es s = [p] ∧ (succs es p).length = 1) ∧
      (¬ ∃ n, succs es e = [n] ∧ (preds es n).length = 1) := by
  unfold checkEnds
  constructor
  · intro h
    split at h
    · rename_i p hp
      split at h
      · cases h
      · rename_i hlen
        refine ⟨?_, ?_⟩
        · rintro ⟨p', hp', hl⟩
          rw [hp] at hp'; cases hp'; exact hlen hl
        · split at h
          · rename_i n hn
            split at h
            · cases h
            · rename_i hlen2
              rintro ⟨n', hn', hl⟩
              rw [hn] at hn'; cases hn'; exact hlen2 hl
          · rename_i hno
            rintro ⟨n', hn', _⟩
            exact hno n' hn'
    · rename_i hno
      refine ⟨?_, ?_⟩
      · rintro ⟨p', hp', _⟩; exact hno p' hp'
      · split at h
        · rename_i n hn
          split at h
          · cases h
          · rename_i hlen2
            rintro ⟨n', hn', hl⟩
            rw [hn] at hn'; cases hn'; exact hlen2 hl
        · rename_i hno2
          rintro ⟨n', hn', _⟩
          exact hno2 n' hn'
  · rintro ⟨h1, h2⟩
    have hfwd : (match succs es e with
        | [n] => if (preds es n).length = 1 then Verdict.extendFwd n else Verdict.ok
        | _ => Verdict.ok) = Verdict.ok := by
      split
      · rename_i n hn
        split
        · rename_i hl; exact absurd ⟨n, hn, hl⟩ h2
        · rfl
      · rfl
    split
    · rename_i p hp
      split
      · rename_i hl; exact absurd ⟨p, hp, hl⟩ h1
      · exact hfwd
    · exact hfwd

theorem checkTracklet_ok_iff_steps (nl : List (α × L)) (es : List (α × α)) (t : L) :
    checkTracklet nl es t = .ok ↔
      (∀ v ∈ nodesWith nl t, ¬ 1 < (preds (inner es (nodesWith nl t)) v).length ∧
                              ¬ 1 < (succs (inner es (nodesWith nl t)) v).length) ∧
      (∀ e ∈ inner es (nodesWith nl t), (succs es e.1).length = 1 ∧ (preds es e.2).length = 1) ∧
      kahn (inner es (nodesWith nl t)) (nodesWith nl t).length (nodesWith nl t) = true ∧
      ∃ r rest s e, nodesWith nl t = r :: rest ∧
        (∀ x ∈ nodesWith nl t, x ∈ component (inner es (nodesWith nl t)) (nodesWith nl t) r) ∧
        (nodesWith nl t).find? (fun v => (preds (inner es (nodesWith nl t)) v).length = 0) = some s ∧
        (nodesWith nl t).find? (fun v => (succs (inner es (nodesWith nl t)) v).length = 0) = some e ∧
        checkEnds es s e = .ok := by
  unfold checkTracklet
  simp only
  generalize nodesWith nl t = C
  constructor
  · intro h
    split at h
    · cases h
    rename_i h1
    split at h
    · cases h
    rename_i h2
    split at h
    · cases h
    rename_i h3
    simp only [List.any_eq_true, decide_eq_true_eq, not_exists, not_and, not_or] at h1 h2
    refine ⟨fun v hv => h1 v hv, fun e he => ?_, by simpa using h3, ?_⟩
    · have := h2 e he
      exact ⟨Decidable.not_not.1 this.1, Decidable.not_not.1 this.2⟩
    · split at h
      · cases h
      rename_i r rest
      split at h
      · cases h
      rename_i h4
      split at h
      · cases h
      rename_i s hs
      split at h
      · cases h
      rename_i e he
      refine ⟨r, rest, s, e, rfl, ?_, hs, he, h⟩
      simpa using h4
  · rintro ⟨h1, h2, h3, r, rest, s, e, hC, h4, hs, he, hends⟩
    subst hC
    rw [if_neg, if_neg, if_neg]
    · simp only
      rw [if_neg, hs, he]
      · exact hends
      · simpa using h4
    · simp only [Bool.not_eq_true', Bool.not_eq_false]; exact h3
    · simp only [List.any_eq_true, decide_eq_true_eq, not_exists, not_and, not_or]
      intro x hx
      have := h2 x hx
      exact ⟨by simp [this.1], by simp [this.2]⟩
    · simp only [List.any_eq_true, decide_eq_true_eq, not_exists, not_and, not_or]
      intro x hx
      exact h1 x hx


/-! ## the model's verdict on one tracklet id ⇔ `GoodTracklet` -/
theorem succs_le_one_iff (es : List (α × α)) (u : α) :
    ¬ 1 < (succs es u).length ↔ ∀ b c, (u, b) ∈ es → (u, c) ∈ es → b = c := by
  unfold succs
  rw [length_dedup_le_one]
  constructor
  · intro h b c hb hc
    apply h
    · have := (mem_succs es u b).2 hb; unfold succs at this; exact (mem_dedup _ _).1 this
    · have := (mem_succs es u c).2 hc; unfold succs at this; exact (mem_dedup _ _).1 this
  · intro h x hx y hy
    apply h
    · have : x ∈ succs es u := by unfold succs; exact (mem_dedup _ _).2 hx
      exact (mem_succs es u x).1 this
    · have : y ∈ succs es u := by unfold succs; exact (mem_dedup _ _).2 hy
      exact (mem_succs es u y).1 this

theorem preds_le_one_iff (es : List (α × α)) (v : α) :
    ¬ 1 < (preds es v).length ↔ ∀ b c, (b, v) ∈ es → (c, v) ∈ es → b = c := by
  unfold preds
  rw [length_dedup_le_one]
  constructor
  · intro h b c hb hc
    apply h
    · have := (mem_preds es v b).2 hb; unfold preds at this; exact (mem_dedup _ _).1 this
    · have := (mem_preds es v c).2 hc; unfold preds at this; exact (mem_dedup _ _).1 this
  · intro h x hx y hy
    apply h
    · have : x ∈ preds es v := by unfold preds; exact (mem_dedup _ _).2 hx
      exact (mem_preds es v x).1 this
    · have : y ∈ preds es v := by unfold preds; exact (mem_dedup _ _).2 hy
      exact (mem_preds es v y).1 this

theorem succs_length_zero_iff (es : List (α × α)) (u : α) :
    (succs es u).length = 0 ↔ ∀ w, (u, w) ∉ es := by
  rw [List.length_eq_zero_iff, List.eq_nil_iff_forall_not_mem]
  exact forall_congr' fun w => not_congr (mem_succs es u w)

theorem preds_length_zero_iff (es : List (α × α)) (v : α) :
    (preds es v).length = 0 ↔ ∀ w, (w, v) ∉ es := by
  rw [List.length_eq_zero_iff, List.eq_nil_iff_forall_not_mem]
  exact forall_congr' fun w => not_congr (mem_preds es v w)

theorem mem_S_iff (nl : List (α × L)) (es : List (α × α)) (t : L) (a b : α) :
    (a, b) ∈ inner es (nodesWith nl t) ↔ ES nl es t a b := by
  rw [mem_inner, mem_nodesWith, mem_nodesWith]; rfl

theorem conn_S_iff (nl : List (α × L)) (es : List (α × α)) (t : L) (a b : α) :
    Conn (inner es (nodesWith nl t)) a b ↔ ReflTransGen (AdjS nl es t) a b := by
  have : ∀ x y, Adj (inner es (nodesWith nl t)) x y ↔ AdjS nl es t x y := by
    intro x y; unfold Adj AdjS; rw [mem_S_iff, mem_S_iff]
  constructor
  · intro h
    induction h with
    | refl => exact ReflTransGen.refl
    | tail _ hxy ih => exact ih.tail ((this _ _).1 hxy)
  · intro h
    induction h with
    | refl => exact ReflTransGen.refl
    | tail _ hxy ih => exact ih.tail ((this _ _).2 hxy)

theorem T_of_lengths (es : List (α × α)) (a b : α) (hab : E es a b)
    (h1 : (succs es a).length = 1) (h2 : (preds es b).length = 1) : T es a b :=
  ⟨hab, (succs_length_one_iff es a b hab).1 h1, (preds_length_one_iff es a b hab).1 h2⟩

/-- soundness: no error message for `t` ⇒ the class of `t` is a maximal unbranched path
(any digraph, cycles allowed) -/
theorem good_of_ok (nl : List (α × L)) (es : List (α × α)) (t : L)
    (h : checkTracklet nl es t = .ok) : GoodTracklet nl es t := by
  obtain ⟨h1, h2, _, r, rest, s, e, hC, h4, hs, he, hends⟩ :=
    (checkTracklet_ok_iff_steps nl es t).1 h
  have hV : ∀ e ∈ inner es (nodesWith nl t), e.1 ∈ nodesWith nl t ∧ e.2 ∈ nodesWith nl t := by
    intro e he; exact ((mem_inner es _ e.1 e.2).1 he).2
  have hconn : ∀ a b, (a, t) ∈ nl → (b, t) ∈ nl → Conn (inner es (nodesWith nl t)) a b := by
    intro a b ha hb
    have ha' := (mem_component_iff _ _ r hV a).1 (h4 a ((mem_nodesWith nl t a).2 ha))
    have hb' := (mem_component_iff _ _ r hV b).1 (h4 b ((mem_nodesWith nl t b).2 hb))
    exact (conn_symm _ ha').trans hb'
  have hinner : ∀ a b, ES nl es t a b → T es a b := by
    intro a b hab
    have := h2 (a, b) ((mem_S_iff nl es t a b).2 hab)
    exact T_of_lengths es a b hab.1 this.1 this.2
  have hs' := List.find?_some hs
  have he' := List.find?_some he
  simp only [decide_eq_true_eq] at hs' he'
  have hsC : (s, t) ∈ nl := (mem_nodesWith nl t s).1 (List.mem_of_find?_eq_some hs)
  have heC : (e, t) ∈ nl := (mem_nodesWith nl t e).1 (List.mem_of_find?_eq_some he)
  obtain ⟨hback, hfwd⟩ := (checkEnds_ok_iff es s e).1 hends
  refine ⟨hinner, fun a b ha hb => (conn_S_iff nl es t a b).1 (hconn a b ha hb), ?_⟩
  intro a b hT
  constructor
  · intro ha
    refine Classical.byContradiction fun hb => ?_
    -- `a` has no successor inside the class, so it is the end node the code found
    have hasink : ∀ w, (a, w) ∉ inner es (nodesWith nl t) := by
      intro w hw
      have hw' := (mem_S_iff nl es t a w).1 hw
      have : w = b := hT.2.1 w hw'.1
      subst this; exact hb hw'.2.2
    have hesink := (succs_length_zero_iff _ e).1 he'
    have hfun : ∀ x y z, (x, y) ∈ inner es (nodesWith nl t) → (x, z) ∈ inner es (nodesWith nl t) → y = z := by
      intro x y z hy hz
      have hx : x ∈ nodesWith nl t := ((mem_inner es _ x y).1 hy).2.1
      exact (succs_le_one_iff _ x).1 (h1 x hx).2 y z hy hz
    have : e = a := sink_unique _ hfun a e hasink hesink (hconn a e ha heC)
    subst this
    exact hfwd ⟨b, (succs_eq_singleton_iff es e b).2 ⟨hT.1, hT.2.1⟩,
      (preds_length_one_iff es e b hT.1).2 hT.2.2⟩
  · intro hb
    refine Classical.byContradiction fun ha => ?_
    have hbsrc : ∀ w, (w, b) ∉ inner es (nodesWith nl t) := by
      intro w hw
      have hw' := (mem_S_iff nl es t w b).1 hw
      have : w = a := hT.2.2 w hw'.1
      subst this; exact ha hw'.2.1
    have hssrc := (preds_length_zero_iff _ s).1 hs'
    have hfun : ∀ x y z, (y, x) ∈ inner es (nodesWith nl t) → (z, x) ∈ inner es (nodesWith nl t) → y = z := by
      intro x y z hy hz
      have hx : x ∈ nodesWith nl t := ((mem_inner es _ y x).1 hy).2.2
      exact (preds_le_one_iff _ x).1 (h1 x hx).1 y z hy hz
    have : s = b := source_unique _ hfun b s hbsrc hssrc (hconn b s hb hsC)
    subst this
    exact hback ⟨a, (preds_eq_singleton_iff es a s).2 ⟨hT.1, hT.2.2⟩,
      (succs_length_one_iff es a s hT.1).2 hT.2.1⟩

/-- completeness: on an acyclic graph (a rank function strictly increasing along the edges) a
maximal unbranched path produces no error message -/
theorem ok_of_good (nl : List (α × L)) (es : List (α × α)) (t : L)
    (rank : α → Nat) (hr : ∀ e ∈ es, rank e.1 < rank e.2) (ht : ∃ u, (u, t) ∈ nl)
    (h : GoodTracklet nl es t) : checkTracklet nl es t = .ok := by
  rw [checkTracklet_ok_iff_steps]
  have hV : ∀ e ∈ inner es (nodesWith nl t), e.1 ∈ nodesWith nl t ∧ e.2 ∈ nodesWith nl t := by
    intro e he; exact ((mem_inner es _ e.1 e.2).1 he).2
  have hkahn : kahn (inner es (nodesWith nl t)) (nodesWith nl t).length (nodesWith nl t) = true :=
    kahn_of_rank _ rank (fun e he => hr e (List.mem_filter.1 he).1) _ _ (Nat.le_refl _)
  obtain ⟨u, hu⟩ := ht
  have hne : nodesWith nl t ≠ [] := List.ne_nil_of_mem ((mem_nodesWith nl t u).2 hu)
  obtain ⟨r, rest, hC⟩ := List.exists_cons_of_ne_nil hne
  have hlen : (nodesWith nl t).length = rest.length + 1 := by rw [hC]; rfl
  -- a source and a sink exist
  have hsrc : ∃ s, (nodesWith nl t).find?
      (fun v => (preds (inner es (nodesWith nl t)) v).length = 0) = some s := by
    obtain ⟨v, hv, hvs⟩ := source_of_kahn _ rest.length _ hne (hlen ▸ hkahn)
    apply Option.isSome_iff_exists.1
    rw [List.find?_isSome]
    refine ⟨v, hv, ?_⟩
    simp only [decide_eq_true_eq]
    rw [preds_length_zero_iff]
    intro w hw
    exact hvs (w, v) hw rfl (hV _ hw).1
  have hsnk : ∃ e, (nodesWith nl t).find?
      (fun v => (succs (inner es (nodesWith nl t)) v).length = 0) = some e := by
    obtain ⟨v, hv, hvs⟩ := sink_of_kahn _ _ _ hne hkahn
    apply Option.isSome_iff_exists.1
    rw [List.find?_isSome]
    refine ⟨v, hv, ?_⟩
    simp only [decide_eq_true_eq]
    rw [succs_length_zero_iff]
    intro w hw
    exact hvs (v, w) hw rfl (hV _ hw).2
  obtain ⟨s, hs⟩ := hsrc
  obtain ⟨e, he⟩ := hsnk
  have hs' := List.find?_some hs
  have he' := List.find?_some he
  simp only [decide_eq_true_eq] at hs' he'
  have hsC : (s, t) ∈ nl := (mem_nodesWith nl t s).1 (List.mem_of_find?_eq_some hs)
  have heC : (e, t) ∈ nl := (mem_nodesWith nl t e).1 (List.mem_of_find?_eq_some he)
  refine ⟨?_, ?_, hkahn, r, rest, s, e, hC, ?_, hs, he, ?_⟩
  · intro v _
    constructor
    · rw [preds_le_one_iff]
      intro b c hb hc
      have hb' := h.inner_T b v ((mem_S_iff nl es t b v).1 hb)
      have hc' := (mem_S_iff nl es t c v).1 hc
      exact (hb'.2.2 c hc'.1).symm
    · rw [succs_le_one_iff]
      intro b c hb hc
      have hb' := h.inner_T v b ((mem_S_iff nl es t v b).1 hb)
      have hc' := (mem_S_iff nl es t v c).1 hc
      exact (hb'.2.1 c hc'.1).symm
  · intro e he
    have hT := h.inner_T e.1 e.2 ((mem_S_iff nl es t e.1 e.2).1 he)
    exact ⟨(succs_length_one_iff es _ _ hT.1).2 hT.2.1, (preds_length_one_iff es _ _ hT.1).2 hT.2.2⟩
  · intro x hx
    rw [mem_component_iff _ _ r hV x, conn_S_iff]
    apply h.connected
    · apply (mem_nodesWith nl t r).1; rw [hC]; simp
    · exact (mem_nodesWith nl t x).1 hx
  · rw [checkEnds_ok_iff]
    constructor
    · rintro ⟨p, hp, hl⟩
      obtain ⟨hps, hall⟩ := (preds_eq_singleton_iff es p s).1 hp
      have hT : T es p s := ⟨hps, (succs_length_one_iff es p s hps).1 hl, hall⟩
      have hpC : (p, t) ∈ nl := (h.maximal p s hT).2 hsC
      exact (preds_length_zero_iff _ s).1 hs' p ((mem_S_iff nl es t p s).2 ⟨hps, hpC, hsC⟩)
    · rintro ⟨n, hn, hl⟩
      obtain ⟨hen, hall⟩ := (succs_eq_singleton_iff es e n).1 hn
      have hT : T es e n := ⟨hen, hall, (preds_length_one_iff es e n hen).1 hl⟩
      have hnC : (n, t) ∈ nl := (h.maximal e n hT).1 heC
      exact (succs_length_zero_iff _ e).1 he' n ((mem_S_iff nl es t e n).2 ⟨hen, heC, hnC⟩)

end Geff.Tracklet
