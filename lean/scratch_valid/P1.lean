import GeffProofs.Tracklet
set_option linter.unusedSectionVars false
namespace Geff.Tracklet
open Geff.Graph Geff.Lineage Relation
variable {α L : Type} [DecidableEq α] [DecidableEq L]

/-- acyclicity as used by the proofs: a rank (e.g. time) strictly increasing along every edge -/
def Ranked (es : List (α × α)) : Prop := ∃ rank : α → Nat, ∀ e ∈ es, rank e.1 < rank e.2

theorem ranked_iff_no_cycle (es : List (α × α)) :
    Ranked es ↔ ∀ a, ¬ TransGen (E es) a a := by
  constructor
  · rintro ⟨rank, hr⟩ a h
    have key : ∀ x y, TransGen (E es) x y → rank x < rank y := by
      intro x y hxy
      induction hxy with
      | single h => exact hr _ h
      | tail _ h ih => exact Nat.lt_trans ih (hr _ h)
    exact Nat.lt_irrefl _ (key a a h)
  · induction es with
    | nil => intro _; exact ⟨fun _ => 0, by simp⟩
    | cons e es' ih =>
      intro hno
      obtain ⟨a, b⟩ := e
      have hmono : ∀ x y, E es' x y → E ((a, b) :: es') x y := fun x y h => List.mem_cons_of_mem _ h
      obtain ⟨rank, hr⟩ := ih (fun x h => hno x (TransGen.mono hmono _ _ h))
      classical
      refine ⟨fun v => rank v + if ReflTransGen (E es') b v then rank a + 1 else 0, ?_⟩
      intro e he
      rcases List.mem_cons.1 he with rfl | he
      · have hna : ¬ ReflTransGen (E es') b a := by
          intro h
          apply hno a
          have h1 : TransGen (E ((a, b) :: es')) a b := TransGen.single (List.mem_cons_self ..)
          exact TransGen.trans_left h1 (ReflTransGen.mono hmono _ _ h)
        simp only [hna, if_false, ReflTransGen.refl, if_true]
        omega
      · have := hr e he
        by_cases hu : ReflTransGen (E es') b e.1
        · have hv : ReflTransGen (E es') b e.2 := hu.tail he
          simp only [hu, hv, if_true]; omega
        · simp only [hu, if_false]; omega
end Geff.Tracklet
