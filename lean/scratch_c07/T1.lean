inductive PyExc where
  | valueError | typeError | attributeError
deriving DecidableEq, Repr, Inhabited
abbrev VRes := Except PyExc

def f (g : Nat → VRes Nat) (v : Nat) : VRes String := do
  let mut name : String := default
  try
    let t1 ← g v
    if t1 > 3 then
      name := "str"
    else
      name := "x"
  catch err =>
    if err == PyExc.typeError then
      throw PyExc.valueError
    else
      throw err
  if name != "str" then
    throw PyExc.valueError
  return name

#print f
example : f (fun _ => .error .typeError) 1 = .error .valueError := by decide
example : f (fun n => .ok n) 5 = .ok "str" := by decide

-- state-with-exceptions monad
structure S where
  a : Nat
  b : Nat
deriving DecidableEq, Repr
def M (α : Type) := S → (Except PyExc α) × S
instance : Monad M where
  pure a := fun s => (.ok a, s)
  bind x f := fun s => match x s with
    | (.ok a, s') => f a s'
    | (.error e, s') => (.error e, s')
instance : MonadExcept PyExc M where
  throw e := fun s => (.error e, s)
  tryCatch x h := fun s => match x s with
    | (.error e, s') => h e s'
    | r => r
def getS : M S := fun s => (.ok s, s)
def putS (s : S) : M Unit := fun _ => (.ok (), s)
def prim (n : Nat) : M Unit := fun s => if n > 5 then (.error .valueError, {s with a := n}) else (.ok (), {s with a := n})
def sa (n : Nat) : M Unit := do
  let old ← getS
  try
    prim n
  catch err =>
    putS old
    throw err
example : sa 7 ⟨1,2⟩ = (.error .valueError, ⟨1,2⟩) := by decide
example : sa 3 ⟨1,2⟩ = (.ok (), ⟨3,2⟩) := by decide
