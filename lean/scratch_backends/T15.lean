import GeffProofs.Backends
namespace Geff.Backends
open Geff.Np Geff.Dicts Geff.Graph

theorem attrOf_find {κ : Type} (p : κ → Bool) (l : List (κ × Attrs)) (name : String) :
    attrOf? (l.find? (fun x => p x.1)) name =
      match (l.map (·.1)).findIdx? p with
      | none => none
      | some k => match l[k]? with
        | none => none
        | some q => q.2.lookup name := by
  induction l with
  | nil => rfl
  | cons a t ih =>
    simp only [List.find?_cons, List.map_cons, List.findIdx?_cons]
    cases hp : p a.1 with
    | true => simp [attrOf?]
    | false =>
      simp only [Bool.false_eq_true, if_false]
      rw [ih]
      cases (t.map (·.1)).findIdx? p <;> simp

theorem nodeIdArr_ok (ids : List Int) (h : ∀ i ∈ ids, 0 ≤ i ∧ i < two64) : nodeIdArr ids = .ok ids := by
  unfold nodeIdArr
  have h1 : ids.any (· < 0) = false := by
    simp only [List.any_eq_false, decide_eq_true_eq]
    intro i hi; have := (h i hi).1; omega
  have h2 : ids.all (· < two64) = true := by
    simp only [List.all_eq_true, decide_eq_true_eq]
    intro i hi; exact (h i hi).2
  simp [h1, h2]

theorem edgeIdArr_ok (es : List (Int × Int)) (h : ∀ e ∈ es, (0 ≤ e.1 ∧ e.1 < two64) ∧ (0 ≤ e.2 ∧ e.2 < two64)) :
    edgeIdArr es = .ok es := by
  unfold edgeIdArr
  have : es.all (fun e => 0 ≤ e.1 ∧ e.1 < two64 ∧ 0 ≤ e.2 ∧ e.2 < two64) = true := by
    simp only [List.all_eq_true, decide_eq_true_eq]
    intro e he; have := h e he; exact ⟨this.1.1, this.1.2, this.2.1, this.2.2⟩
  rw [if_pos this]

theorem propNames_cover {κ : Type} (data : List (κ × Attrs)) :
    ∀ d ∈ data, ∀ n v, d.2.lookup n = some v → n ∈ propNames data := by
  intro d hd n v hl
  unfold propNames
  rw [mem_dedup']
  apply List.mem_flatMap.2
  exact ⟨d, hd, List.mem_map.2 ⟨(n, v), lookup_mem d.2 n v hl, rfl⟩⟩

/-- documented domain of an attribute graph held by networkx: ids are integers in `[0, 2^64)`,
no edge twice (a networkx graph is simple; in either orientation when undirected), and every
property is *regular*: its present values are all scalars, or all lists of one shape, with leaves
of one class (bool | integers fitting int64 | integers fitting uint64 | float | str) -/
structure NxDomain (G : NxGraph) : Prop where
  nodup : (G.nodes.map (·.1)).Nodup
  idRange : ∀ i ∈ G.nodes.map (·.1), 0 ≤ i ∧ i < two64
  endpoints : ∀ e ∈ G.edges.map (·.1), e.1 ∈ G.nodes.map (·.1) ∧ e.2 ∈ G.nodes.map (·.1)
  simple : (G.edges.map (·.1)).Pairwise (fun a b => sameEdge G.directed a b = false)
  nodeProps : ∀ name, ∃ K sh, RegularVals K sh (present G.nodes name)
  edgeProps : ∀ name, ∃ K sh, RegularVals K sh (present G.edges name)

/-- `NxBackend.write` on the documented domain: it succeeds, the in-memory geff is valid and denotes `G` -/
theorem nxWrite_spec (G : NxGraph) (h : NxDomain G) :
    ∃ m, nxWrite G = .ok m ∧ MemValid m ∧ m.directed = G.directed ∧
      (∀ i name, specNodeAttr m i name = G.nodeAttr i name) ∧
      (∀ e name, specEdgeAttr m e name = G.edgeAttr e name) ∧
      m.nodeIds = G.nodes.map (·.1) ∧ m.edgeIds = G.edges.map (·.1) := by
  obtain ⟨np, hnp, hnn, hnwf, hnattr⟩ := dictPropsToArr_spec G.nodes (propNames G.nodes)
    (fun n _ => h.nodeProps n) (propNames_cover G.nodes)
  obtain ⟨ep, hep, hen, hewf, heattr⟩ := dictPropsToArr_spec G.edges (propNames G.edges)
    (fun n _ => h.edgeProps n) (propNames_cover G.edges)
  have hids := nodeIdArr_ok (G.nodes.map (·.1)) h.idRange
  have heds := edgeIdArr_ok (G.edges.map (·.1)) (fun e he =>
    ⟨h.idRange _ (h.endpoints e he).1, h.idRange _ (h.endpoints e he).2⟩)
  refine ⟨{ directed := G.directed, nodeIds := G.nodes.map (·.1), edgeIds := G.edges.map (·.1),
            nodeProps := np, edgeProps := ep }, ?_, ?_, rfl, ?_, ?_, rfl, rfl⟩
  · simp only [nxWrite, writeDicts, hids, heds, hnp, hep, bind, Except.bind, pure, Except.pure]
  · exact { nodup := h.nodup, endpoints := h.endpoints, simple := h.simple,
            nodeNames := by rw [hnn]; exact nodup_dedup _,
            edgeNames := by rw [hen]; exact nodup_dedup _,
            nodeCols := by simpa using hnwf, edgeCols := by simpa using hewf }
  · intro i name
    simp only [specNodeAttr, NxGraph.nodeAttr]
    rw [attrOf_find (fun x => decide (x = i)) G.nodes name]
    cases hk : (G.nodes.map (·.1)).findIdx? (fun x => decide (x = i)) with
    | none => rfl
    | some k =>
      have hlt : k < G.nodes.length := by simpa using findIdx?_lt _ _ k hk
      simp only [List.getElem?_eq_getElem hlt]
      exact hnattr k hlt name
  · intro e name
    simp only [specEdgeAttr, NxGraph.edgeAttr]
    rw [attrOf_find (fun x => sameEdge G.directed x e) G.edges name]
    cases hk : (G.edges.map (·.1)).findIdx? (fun x => sameEdge G.directed x e) with
    | none => rfl
    | some k =>
      have hlt : k < G.edges.length := by simpa using findIdx?_lt _ _ k hk
      simp only [List.getElem?_eq_getElem hlt]
      exact heattr k hlt name

end Geff.Backends
