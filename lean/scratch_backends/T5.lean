import GeffProofs.Dicts
namespace Geff.Dicts
open Geff.Np

def RegularVals (K : LeafClass) (sh : Option (List Nat)) (vals : List PyVal) : Prop :=
  sh ≠ some [] ∧ ∀ x ∈ vals, pyShape x = sh ∧ ∀ v ∈ pyLeaves x, K.holds v = true
theorem rowToPy_pyRow (x : PyVal) (h : pyShape x ≠ some []) : rowToPy false (pyRow x) = x := by sorry
theorem valuesToArr_regular (K : LeafClass) (sh : Option (List Nat)) (vals : List PyVal)
    (h : RegularVals K sh vals) : ∃ d, valuesToArr vals = .ok (d, false, vals.map pyRow) := by sorry

/-- the values of property `name` that are present, in element order -/
def present {ι : Type} (data : List (ι × Attrs)) (name : String) : List PyVal :=
  data.filterMap (fun d => d.2.lookup name)

theorem mem_present {ι : Type} (data : List (ι × Attrs)) (name : String) (d : ι × Attrs) (v : PyVal)
    (hd : d ∈ data) (hv : d.2.lookup name = some v) : v ∈ present data name :=
  List.mem_filterMap.2 ⟨d, hd, hv⟩

theorem defaultFor_regular (K : LeafClass) (v0 : PyVal) (h0 : ∀ v ∈ pyLeaves v0, K.holds v = true) :
    pyShape (defaultFor v0) = pyShape v0 ∧ ∀ v ∈ pyLeaves (defaultFor v0), K.holds v = true := by
  cases v0 with
  | arr sh fl => exact ⟨rfl, h0⟩
  | sc x =>
    have hx := h0 x (by simp [pyLeaves])
    cases x <;> cases K <;> simp_all [LeafClass.holds, defaultFor, pyShape, pyLeaves, two63, two64]

theorem filledValues_regular {ι : Type} (K : LeafClass) (sh : Option (List Nat)) (data : List (ι × Attrs))
    (name : String) (h : RegularVals K sh (present data name)) :
    ∃ K' sh', RegularVals K' sh' (filledValues data name) := by
  cases hf : data.findSome? (fun d => d.2.lookup name) with
  | none =>
    refine ⟨.int64, none, by simp, ?_⟩
    intro x hx
    obtain ⟨d, hd, rfl⟩ := List.mem_map.1 hx
    have hnone : d.2.lookup name = none := by
      have := List.findSome?_eq_none_iff.1 hf d hd
      simpa using this
    simp [hnone, determineDefaultValue, hf, pyShape, pyLeaves, LeafClass.holds, two63]
  | some v0 =>
    obtain ⟨d0, hd0, hv0⟩ := List.exists_of_findSome?_eq_some hf
    have hp0 := h.2 v0 (mem_present data name d0 v0 hd0 hv0)
    have hdef := defaultFor_regular K v0 hp0.2
    refine ⟨K, sh, h.1, ?_⟩
    intro x hx
    obtain ⟨d, hd, rfl⟩ := List.mem_map.1 hx
    cases hl : d.2.lookup name with
    | some v => simpa using h.2 v (mem_present data name d v hd hl)
    | none =>
      simp only [Option.getD_none, determineDefaultValue, hf]
      exact ⟨hdef.1.trans hp0.1, hdef.2⟩

/-- **dict layer, regular case**: one array is built, element `i` is marked missing iff it lacks the
property, and a present entry denotes exactly the given value (same kind) -/
theorem dictPropToArr_regular {ι : Type} (K : LeafClass) (sh : Option (List Nat)) (data : List (ι × Attrs))
    (name : String) (h : RegularVals K sh (present data name)) :
    ∃ c, dictPropToArr data name = .ok c ∧ c.WF data.length ∧
      ∀ i (hi : i < data.length), c.entry i = (data[i]).2.lookup name := by
  obtain ⟨K', sh', hreg⟩ := filledValues_regular K sh data name h
  obtain ⟨dt, hdt⟩ := valuesToArr_regular K' sh' _ hreg
  refine ⟨{ dtype := dt, varlen := false, rows := (filledValues data name).map pyRow,
            missing := if (missingMask data name).any id then some (missingMask data name) else none },
          by simp only [dictPropToArr, hdt], ?_, ?_⟩
  · constructor
    · simp [filledValues]
    · intro ms hms
      by_cases hany : (missingMask data name).any id = true
      · simp only [hany, if_true, Option.some.injEq] at hms
        subst hms; simp [missingMask]
      · simp [hany] at hms
  · intro i hi
    have hrow : ((filledValues data name).map pyRow)[i]? = some (pyRow ((data[i].2.lookup name).getD (determineDefaultValue data name))) := by
      simp [filledValues, hi]
    have hshape : ∀ x ∈ filledValues data name, pyShape x ≠ some [] := by
      intro x hx; rw [(hreg.2 x hx).1]; exact hreg.1
    have hx : (data[i].2.lookup name).getD (determineDefaultValue data name) ∈ filledValues data name :=
      List.mem_map.2 ⟨data[i], List.getElem_mem hi, rfl⟩
    simp only [Col.entry, hrow]
    by_cases hany : (missingMask data name).any id = true
    · simp only [hany, if_true]
      have hm : (missingMask data name)[i]? = some (data[i].2.lookup name).isNone := by
        simp [missingMask, hi]
      rw [hm]
      cases hl : data[i].2.lookup name with
      | none => simp
      | some v =>
        simp only [Option.isNone_some, if_true, Option.getD_some]
        have hs : pyShape v ≠ some [] := by
          have := hshape _ hx
          simpa [hl] using this
        rw [rowToPy_pyRow v hs]
    · simp only [hany]
      have hsome : (data[i].2.lookup name).isNone = false := by
        have h1 : ¬ ∃ b ∈ missingMask data name, b = true := by simpa [List.any_eq_true] using hany
        cases hb : (data[i].2.lookup name).isNone with
        | false => rfl
        | true =>
          exact absurd ⟨true, List.mem_map.2 ⟨data[i], List.getElem_mem hi, hb⟩, rfl⟩ h1
      cases hl : data[i].2.lookup name with
      | none => simp [hl] at hsome
      | some v =>
        simp only [Option.getD_some]
        have hs : pyShape v ≠ some [] := by
          have := hshape _ hx
          simpa [hl] using this
        rw [rowToPy_pyRow v hs]
        simp

end Geff.Dicts
