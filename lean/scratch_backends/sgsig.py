import sys, time, os
sys.path.insert(0, "/verif")
from harness import common
common.setup_impl()
from harness.corr import C03 as H
import spatial_graph as sg, random, collections
orig = sg.create_graph
def logged(**kw):
    t = time.time(); r = orig(**kw); dt = time.time() - t
    if dt > 1: open("/verif/lean/scratch_backends/siglog.txt", "a").write(f"{dt:.1f} {kw}\n")
    return r
sg.create_graph = logged
t = time.time(); H.sg_warm(); print("warm", time.time() - t)
rng = random.Random(1)
cases = [{"S": H.gen_sg(rng, H.SG_SCHEMAS[k % len(H.SG_SCHEMAS)]), "fmt": 2 + k % 2} for k in range(80)]
t = time.time(); res = common.pmap(H.impl_sg_roundtrip, cases, chunksize=4); print("sg time", time.time() - t)
cases = [{"M": H.gen_mem(rng, sg_domain=True), "backends": ["nx", "rx", "sg"]} for _ in range(80)]
t = time.time(); res = common.pmap(H.impl_construct, cases, chunksize=4); print("construct time", time.time() - t)
