import GeffProps.C03
open Geff.Np Geff.Dicts Geff.Backends
example : DecidableEq Attrs := inferInstance
example : DecidableEq (Int × Attrs) := inferInstance
example : DecidableEq (List (Int × Attrs)) := inferInstance
example : DecidableEq (List (Int × Attrs) × List ((Int × Int) × Attrs)) := inferInstance
example : DecidableEq (Except Err (List (Int × Attrs))) := inferInstance
