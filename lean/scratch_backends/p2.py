import warnings; warnings.simplefilter("ignore")
import numpy as np, zarr, networkx as nx, rustworkx as rx, geff
from geff.core_io import read_to_memory
def T(name, f):
    try: print(name, "->", f())
    except BaseException as e: print(name, "EXC", type(e).__name__, str(e)[:200])
def nxrt(g, fmt=2, **kw):
    s = zarr.storage.MemoryStore(); geff.write(g, s, zarr_format=fmt, **kw); g2,m = geff.read(s); return list(g2.nodes(data=True)), list(g2.edges(data=True)), g2.is_directed()
for fmt in (2,3):
    g = nx.Graph(); g.add_node(0, p=["a"]); g.add_node(1, p=["b","c"])
    T(f"ragged str fmt{fmt}", lambda: nxrt(g, fmt))
    g = nx.Graph(); g.add_node(0, p=[True]); g.add_node(1, p=[False,True]); g.add_node(2)
    T(f"ragged bool fmt{fmt}", lambda: nxrt(g, fmt))
    g = nx.Graph(); g.add_node(0, p="a\0"); g.add_node(1, p="é☃"); g.add_node(2, p="")
    T(f"str fmt{fmt}", lambda: nxrt(g, fmt))
    g = nx.Graph(); g.add_node(0, p=[]); g.add_node(1)
    T(f"emptylist fmt{fmt}", lambda: nxrt(g, fmt))
    g = nx.Graph(); g.add_node(0, p=float("nan")); g.add_node(1, p=-0.0); g.add_node(2,p=float("inf"))
    T(f"floats fmt{fmt}", lambda: nxrt(g, fmt))
    g = nx.DiGraph(); g.add_node(0); g.add_node(1); g.add_edge(1,0,w=True); g.add_edge(0,1); g.add_edge(0,0,w=False)
    T(f"edges fmt{fmt}", lambda: nxrt(g, fmt))
    g = nx.Graph(); g.add_node(3); g.add_node(1); g.add_edge(3,1,w=1.5); g.add_edge(1,1)
    T(f"undirected fmt{fmt}", lambda: nxrt(g, fmt))
    g = nx.Graph();
    T(f"empty fmt{fmt}", lambda: nxrt(g, fmt))
    g = nx.Graph(); g.add_node(7)
    T(f"single fmt{fmt}", lambda: nxrt(g, fmt))
    g = nx.Graph(); g.add_node(7); g.add_node(8, q=None)
    T(f"none fmt{fmt}", lambda: nxrt(g, fmt))
    g = nx.Graph(); g.add_node(0, p=[[1,2],[3,4]]); g.add_node(1, p=[[5,6]])
    T(f"ragged2d fmt{fmt}", lambda: nxrt(g, fmt))
    g = nx.Graph(); g.add_node(0, p=2**63); g.add_node(1, p=2**64-1)
    T(f"allbig fmt{fmt}", lambda: nxrt(g, fmt))
