import warnings; warnings.simplefilter("ignore")
import numpy as np, zarr, networkx as nx, geff
from geff.core_io import read_to_memory
g = nx.Graph(); g.add_node(0, p=[(1.0,2.0),(3.0,4.0)]); g.add_node(1, p=None); g.add_node(2, p=[(5.0,6.0)]); g.add_node(3)
s = zarr.storage.MemoryStore(); geff.write(g, s)
m = read_to_memory(s); print(m["node_props"]["p"]["missing"], [x.shape for x in m["node_props"]["p"]["values"]])
print(geff.read(s)[0].nodes(data=True))
