import GeffModel.Backends
open Geff.Np Geff.Dicts Geff.Backends

#check @List.lookup
#check @List.mapM_eq_some
#print List.mapM
#check @List.foldlM_cons
#check @List.find?_cons
#check @List.idxOf?
#check @List.findSome?_cons
#check @List.lookup_cons
example : (([] : List Nat).mapM (fun x => (Except.ok x : Except Err Nat))) = .ok [] := by simp
example (a : Nat) (l : List Nat) (f : Nat → Except Err Nat): ((a :: l).mapM f) = (do let b ← f a; let bs ← l.mapM f; pure (b :: bs)) := by simp [List.mapM_cons]
