import GeffProofs.Backends
namespace Geff.Backends
open Geff.Np Geff.Dicts

/-- a valid in-memory geff: unique node ids, edges between existing nodes, no edge twice (in either
orientation when undirected), property names unique, every column as long as its element list -/
structure MemValid (m : MemGeff) : Prop where
  nodup : m.nodeIds.Nodup
  endpoints : ∀ e ∈ m.edgeIds, e.1 ∈ m.nodeIds ∧ e.2 ∈ m.nodeIds
  simple : m.edgeIds.Pairwise (fun a b => sameEdge m.directed a b = false)
  nodeNames : (m.nodeProps.map (·.1)).Nodup
  edgeNames : (m.edgeProps.map (·.1)).Nodup
  nodeCols : ∀ p ∈ m.nodeProps, p.2.WF m.nodeIds.length
  edgeCols : ∀ p ∈ m.edgeProps, p.2.WF m.edgeIds.length

/-- SPECIFICATION: the attribute `name` node `i` has in the graph an in-memory geff denotes -/
def specNodeAttr (m : MemGeff) (i : Int) (name : String) : Option PyVal :=
  match m.nodeIds.findIdx? (fun x => x = i) with
  | none => none
  | some k => memAttr m.nodeProps k name

/-- SPECIFICATION: the attribute `name` of edge `e` (either orientation when undirected) -/
def specEdgeAttr (m : MemGeff) (e : Int × Int) (name : String) : Option PyVal :=
  match m.edgeIds.findIdx? (fun x => sameEdge m.directed x e) with
  | none => none
  | some k => memAttr m.edgeProps k name

theorem findIdx?_lt {α : Type} (p : α → Bool) (l : List α) (k : Nat) (h : l.findIdx? p = some k) : k < l.length := by
  induction l generalizing k with
  | nil => simp at h
  | cons a t ih =>
    simp only [List.findIdx?_cons] at h
    cases hp : p a with
    | true => simp [hp] at h; subst h; simp
    | false =>
      simp only [hp, Bool.false_eq_true, if_false, Option.map_eq_some_iff] at h
      obtain ⟨k', hk', rfl⟩ := h
      have := ih k' hk'
      simp; omega

theorem map_pair_eq_zip {α : Type} (l : List α) : l.map (fun i => (i, ([] : Attrs))) = l.zip (List.replicate l.length []) := by
  induction l with
  | nil => rfl
  | cons a t ih => simp [List.replicate_succ, ih]

theorem attr_of_zip {κ : Type} (p : κ → Bool) (keys : List κ) (ds : List Attrs) (hlen : ds.length = keys.length)
    (name : String) :
    attrOf? ((keys.zip ds).find? (fun x => p x.1)) name =
    match keys.findIdx? p with
    | none => none
    | some k => look ds k name := by
  rw [find?_zip p keys ds hlen]
  cases h : keys.findIdx? p with
  | none => rfl
  | some k =>
    have hk := findIdx?_lt p keys k h
    have hk' : k < ds.length := by omega
    have hz : (keys.zip ds)[k]? = some (keys[k], ds[k]) := by
      rw [List.getElem?_eq_getElem (by simp; omega)]
      simp
    simp [attrOf?, look, hz, List.getElem?_eq_getElem hk']

theorem nxConstruct_spec (m : MemGeff) (h : MemValid m) :
    ∃ g, nxConstruct m = .ok g ∧ g.directed = m.directed ∧ g.nodes.map (·.1) = m.nodeIds ∧
      g.edges.map (·.1) = m.edgeIds ∧
      (∀ i name, g.nodeAttr i name = specNodeAttr m i name) ∧
      (∀ e name, g.edgeAttr e name = specEdgeAttr m e name) := by
  -- nodes
  have h1 : m.nodeIds.foldl NxGraph.addNode ⟨m.directed, [], []⟩ =
      ⟨m.directed, m.nodeIds.zip (List.replicate m.nodeIds.length []), []⟩ := by
    rw [foldl_addNode m.directed [] [] m.nodeIds h.nodup (by simp)]
    simp [map_pair_eq_zip]
  obtain ⟨ds, hds, hdl, hfold⟩ := nodeProps_fold m.nodeIds m.nodeProps
    ⟨m.directed, m.nodeIds.zip (List.replicate m.nodeIds.length []), []⟩ (List.replicate m.nodeIds.length [])
    rfl h.nodup (by simp) h.nodeCols
  obtain ⟨ds', hds', _, hlook⟩ := fillDicts_spec m.nodeIds.length m.nodeProps h.nodeNames h.nodeCols
  have hdd : ds' = ds := by
    have : (Except.ok ds' : Except Err _) = Except.ok ds := by rw [← hds', ← hds]; rfl
    exact Except.ok.inj this
  subst hdd
  -- edges
  have hkeys : (m.nodeIds.zip ds').map (·.1) = m.nodeIds := List.map_fst_zip (by omega)
  have h3 : m.edgeIds.foldl NxGraph.addEdge ⟨m.directed, m.nodeIds.zip ds', []⟩ =
      ⟨m.directed, m.nodeIds.zip ds', m.edgeIds.zip (List.replicate m.edgeIds.length [])⟩ := by
    rw [foldl_addEdge m.directed _ [] m.edgeIds (by rw [hkeys]; exact h.endpoints) (by simpa using h.simple)]
    simp [map_pair_eq_zip]
  obtain ⟨es, hes, hel, hefold⟩ := edgeProps_fold m.edgeIds m.edgeProps
    ⟨m.directed, m.nodeIds.zip ds', m.edgeIds.zip (List.replicate m.edgeIds.length [])⟩
    (List.replicate m.edgeIds.length []) rfl h.simple (by simp) h.edgeCols
  obtain ⟨es', hes', _, helook⟩ := fillDicts_spec m.edgeIds.length m.edgeProps h.edgeNames h.edgeCols
  have hee : es' = es := by
    have : (Except.ok es' : Except Err _) = Except.ok es := by rw [← hes', ← hes]; rfl
    exact Except.ok.inj this
  subst hee
  refine ⟨⟨m.directed, m.nodeIds.zip ds', m.edgeIds.zip es'⟩, ?_, rfl, hkeys, List.map_fst_zip (by omega), ?_, ?_⟩
  · unfold nxConstruct
    simp only [h1, hfold, h3, hefold]
  · intro i name
    have := attr_of_zip (fun x => decide (x = i)) m.nodeIds ds' hdl name
    simp only [NxGraph.nodeAttr, specNodeAttr]
    rw [this]
    cases hk : m.nodeIds.findIdx? (fun x => decide (x = i)) with
    | none => rfl
    | some k => exact hlook k (findIdx?_lt _ _ k hk) name
  · intro e name
    have := attr_of_zip (fun x => sameEdge m.directed x e) m.edgeIds es' hel name
    simp only [NxGraph.edgeAttr, specEdgeAttr]
    rw [this]
    cases hk : m.edgeIds.findIdx? (fun x => sameEdge m.directed x e) with
    | none => rfl
    | some k => exact helook k (findIdx?_lt _ _ k hk) name

end Geff.Backends
