import GeffProps.C03
namespace GeffProps.C03
open Geff.Np Geff.Dicts Geff.Backends

/-- `geff.write(g, store, node_id_dict=d)` then `geff.read(store, backend="rustworkx")` -/
def rxWriteRead (store : MemGeff → Except Err MemGeff) (g : RxGraph) (d : Option (List (Nat × Int))) :
    Except Err RxGraph :=
  match rxWrite g d with
  | .error e => .error e
  | .ok m =>
    match store m with
    | .error e => .error e
    | .ok m' => rxConstruct m'

/-- `geff.write(g, store, node_id_dict=d)` then `geff.read(store, backend="networkx")` -/
def rxWriteNxRead (store : MemGeff → Except Err MemGeff) (g : RxGraph) (d : Option (List (Nat × Int))) :
    Except Err NxGraph :=
  match rxWrite g d with
  | .error e => .error e
  | .ok m =>
    match store m with
    | .error e => .error e
    | .ok m' => nxConstruct m'

/-- **C03 (rustworkx round trip)**: let `(nd, ed) = rxDicts g d` be the attribute graph the
rustworkx graph `g` denotes under `node_id_dict = d` (node payloads at the indices in use —
holes skipped — renamed through `d`, or the indices themselves when `d = None`; the edge list
renamed likewise).  If that graph is in the documented domain, writing `g` and reading it back
with rustworkx yields a graph that shows — through `to_rx_id_map`, as the repaired adapter does —
exactly that attribute graph; reading with networkx likewise. -/
theorem C03_rx_roundtrip (store : MemGeff → Except Err MemGeff) (hs : StoreRoundTrip store)
    (g : RxGraph) (d : Option (List (Nat × Int))) (nd : List (Int × Attrs)) (ed : List ((Int × Int) × Attrs))
    (hd : rxDicts g d = .ok (nd, ed)) (h : NxDomain ⟨g.directed, nd, ed⟩) :
    (∃ G', rxWriteRead store g d = .ok G' ∧ rxObs G' = nxObs ⟨g.directed, nd, ed⟩) ∧
    (∃ G', rxWriteNxRead store g d = .ok G' ∧ nxObs G' = nxObs ⟨g.directed, nd, ed⟩) := by
  have hw : rxWrite g d = nxWrite ⟨g.directed, nd, ed⟩ := by simp only [rxWrite, hd, nxWrite]
  obtain ⟨G1, h1, o1⟩ := C03_nx_to_rx store hs ⟨g.directed, nd, ed⟩ h
  obtain ⟨G2, h2, o2⟩ := C03_nx_roundtrip store hs ⟨g.directed, nd, ed⟩ h
  refine ⟨⟨G1, ?_, o1⟩, ⟨G2, ?_, o2⟩⟩
  · simpa only [rxWriteRead, nxWriteRxRead, hw] using h1
  · simpa only [rxWriteNxRead, nxWriteRead, hw] using h2

/-- non-vacuity: a rustworkx graph with a removed index (hole at 1), an explicit `node_id_dict`
with an id above 2^63, a bool payload on one node only; `rxDicts` evaluates to the denoted graph -/
def exRx : RxGraph :=
  { directed := false,
    slots := [some [("f", .sc (.b true))], none, some []],
    edges := [((2, 0), [("w", .sc (.i 3))])], idMap := none }

example : rxDicts exRx (some [(0, 100), (2, 9223372036854775808)]) =
    .ok ([(100, [("f", .sc (.b true))]), (9223372036854775808, [])],
         [((9223372036854775808, 100), [("w", .sc (.i 3))])]) := by decide

example : (rxWriteRead (fun m => .ok m) exRx (some [(0, 100), (2, 9223372036854775808)])).toOption.map
    (fun g => (g.nodeAttr 100 "f", g.nodeAttr 9223372036854775808 "f", g.hasEdge (100, 9223372036854775808))) =
    some (some (.sc (.b true)), none, true) := by decide

/-- an index that `node_id_dict` does not cover is `KeyError`, as in Python -/
example : rxDicts exRx (some [(0, 100)]) = .error .keyError := by decide

/-- non-vacuity of the ragged dict-layer theorem: lists of different length on two of three elements -/
def exRag : List (Int × Attrs) :=
  [(0, [("r", .arr [2] [.i 1, .i 2])]), (1, []), (2, [("r", .arr [1] [.i 7])])]

example : RaggedVals .int64 1 1 (present exRag "r") := by
  refine ⟨by decide, by decide, ?_⟩
  intro x hx
  simp only [present, exRag, List.filterMap_cons, lookup_cons_ite] at hx
  simp at hx
  rcases hx with rfl | rfl
  · exact ⟨[2], [.i 1, .i 2], rfl, rfl, by decide, Or.inl (by simp), by decide⟩
  · exact ⟨[1], [.i 7], rfl, rfl, by decide, Or.inl (by simp), by decide⟩

example : (dictPropToArr exRag "r").toOption.map (fun c => (c.varlen, c.entry 0, c.entry 1, c.entry 2)) =
    some (true, some (.arr [2] [.i 1, .i 2]), none, some (.arr [1] [.i 7])) := by decide

end GeffProps.C03
