import sys, json
sys.path.insert(0, "/verif")
from harness import common
common.setup_impl()
from harness.corr import C03 as H
d = json.load(open("explore2_out.json"))
for k, v in d.items():
    if "sg-built" in k:
        c, df = v
        S = c["S"]
        g = H.build_sg(S)
        o = H.obs_sg(g, S["axes"])
        G = H.sg_as_graph(S)
        a = H.canon(G)["edges"]; b = H.canon(o)["edges"]
        ea = [tuple(x[0]) for x in a]; eb = [tuple(x[0]) for x in b]
        print(S["directed"], len(ea), len(eb))
        print("missing", set(ea) - set(eb)); print("extra", set(eb) - set(ea))
