import GeffProofs.Dicts
namespace Geff.Dicts
open Geff.Np

theorem dictPropToArr_ragged {ι : Type} (K : LeafClass) (r w : Nat) (data : List (ι × Attrs))
    (name : String) (h : RaggedVals K r w (present data name)) :
    ∃ c, dictPropToArr data name = .ok c ∧ c.WF data.length ∧
      ∀ i (hi : i < data.length), c.entry i = (data[i]).2.lookup name := by
  obtain ⟨hK, hr, hall⟩ := h
  cases hf : data.findSome? (fun d => d.2.lookup name) with
  | none =>
    -- nobody has the property: the regular case with no present value
    have hp : present data name = [] := by
      unfold present
      rw [List.filterMap_eq_nil_iff]
      intro d hd
      simpa using List.findSome?_eq_none_iff.1 hf d hd
    exact dictPropToArr_regular .int64 none data name (by rw [hp]; exact ⟨by simp, by simp⟩)
  | some v0 =>
    obtain ⟨d0, hd0, hv0⟩ := List.exists_of_findSome?_eq_some hf
    have hv0p : v0 ∈ present data name := mem_present data name d0 v0 hd0 hv0
    -- the filled values are the present ones and copies of the first present one
    have hfilled : ∀ x ∈ filledValues data name, x ∈ present data name := by
      intro x hx
      obtain ⟨d, hd, rfl⟩ := List.mem_map.1 hx
      cases hl : d.2.lookup name with
      | some v => simpa using mem_present data name d v hd hl
      | none =>
        obtain ⟨sh, fl, rfl, _⟩ := hall v0 hv0p
        simpa [determineDefaultValue, hf, defaultFor] using hv0p
    have hne : filledValues data name ≠ [] := by
      intro he
      have : d0 ∈ data := hd0
      have hlen : (filledValues data name).length = data.length := by simp [filledValues]
      rw [he] at hlen
      have : data = [] := List.eq_nil_of_length_eq_zero hlen.symm
      rw [this] at hd0; simp at hd0
    cases hvals : filledValues data name with
    | nil => exact absurd hvals hne
    | cons x xs =>
      by_cases hsame : (filledValues data name).all (fun y => pyShape y = pyShape x) = true
      · -- all lists happen to have one shape: the regular case
        obtain ⟨sh0, fl0, hx0, hlen0, _⟩ := hall x (hfilled x (by rw [hvals]; simp))
        have hreg : RegularVals K (some sh0) (present data name) := by
          refine ⟨?_, ?_⟩
          · intro he
            have : sh0 = [] := by simpa using he
            rw [this] at hlen0; simp at hlen0; omega
          · intro y hy
            obtain ⟨sh, fl, rfl, _, hleaves, _, _⟩ := hall y hy
            -- y occurs among the filled values
            have hyf : PyVal.arr sh fl ∈ filledValues data name := by
              obtain ⟨d, hd, hl⟩ := List.mem_filterMap.1 hy
              exact List.mem_map.2 ⟨d, hd, by simp [hl]⟩
            have := (List.all_eq_true.1 hsame) _ hyf
            simp only [decide_eq_true_eq] at this
            rw [this, hx0]
            exact ⟨rfl, by simpa [pyLeaves] using hleaves⟩
        exact dictPropToArr_regular K (some sh0) data name hreg
      · -- genuinely ragged: one variable-length property
        have hrag : RaggedVals K r w (filledValues data name) :=
          ⟨hK, hr, fun y hy => hall y (hfilled y hy)⟩
        have hcv := constructVarLenProps_ragged K r w _ hne hrag
        have hdt : valuesToArr (filledValues data name) = .ok (K.dtype, true, (filledValues data name).map pyRow) := by
          conv => lhs; unfold valuesToArr
          rw [hvals] at hsame hcv ⊢
          simp only [hsame, Bool.false_eq_true, if_false, hcv]
        apply dictPropToArr_of_rows data name K.dtype true hdt
        intro y hy
        obtain ⟨sh, fl, rfl, _⟩ := hall y (hfilled y hy)
        simp [pyRow, rowToPy_true]

end Geff.Dicts
