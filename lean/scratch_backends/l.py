import warnings; warnings.simplefilter("ignore")
import numpy as np, zarr, networkx as nx, rustworkx as rx, geff
def lay(a, how):
    a = np.asarray(a)
    if how == "C": return np.ascontiguousarray(a)
    if how == "F": return np.asfortranarray(a)
    if how == "T": return np.ascontiguousarray(a.T).T
    if how == "strided":
        big = np.zeros(tuple(2*d for d in a.shape), dtype=a.dtype); v = big[tuple(slice(None,None,2) for _ in a.shape)]; v[...] = a; return v
    if how == "neg":
        r = np.ascontiguousarray(a[tuple(slice(None,None,-1) for _ in a.shape)]); return r[tuple(slice(None,None,-1) for _ in a.shape)]
    if how == "swapped": return a.astype(a.dtype.newbyteorder())
    if how == "readonly":
        b = a.copy(); b.setflags(write=False); return b
for how in ["C","F","T","strided","neg","swapped","readonly"]:
    for fmt in (2,3):
        for dt in ("int64","float64","bool","U3"):
            base = [np.arange(6).reshape(2,3), np.arange(6,12).reshape(2,3), np.arange(12).reshape(4,3)]
            if dt == "U3": base = [b.astype("U3") for b in base]
            else: base = [b.astype(dt) for b in base]
            for ragged in (False, True):
                vals = base if ragged else base[:2]
                try:
                    g = nx.Graph()
                    for i, v in enumerate(vals): g.add_node(i, p=lay(v, how))
                    g.add_node(99)
                    s = zarr.storage.MemoryStore(); geff.write(g, s, zarr_format=fmt)
                    ok = True
                    for be in ("networkx","rustworkx"):
                        g2,_ = geff.read(s, backend=be)
                        for i, v in enumerate(vals):
                            got = g2.nodes[i]["p"] if be=="networkx" else g2[g2.attrs["to_rx_id_map"][i]]["p"]
                            if np.asarray(got).tolist() != v.tolist(): ok = False
                    if not ok: print("MISMATCH", how, fmt, dt, ragged)
                except Exception as e:
                    print("EXC", how, fmt, dt, ragged, type(e).__name__, str(e)[:100])
print("done")
import spatial_graph as sg
for how in ["C","F","T","strided","neg","swapped","readonly"]:
    try:
        g = sg.create_graph(ndims=2, node_dtype="uint64", node_attr_dtypes={"score":"float32","position":"float64[2]"}, edge_attr_dtypes={"w":"int16"}, position_attr="position", directed=True)
        ids = lay(np.array([3,9,4],np.uint64), how); pos = lay(np.array([[1.,4.],[2.,5.],[3.,6.]]), how); sc = lay(np.array([.5,1.5,2.5],np.float32), how)
        g.add_nodes(ids, position=pos, score=sc)
        g.add_edges(lay(np.array([[9,3],[9,4]],np.uint64), how), w=lay(np.array([1,2],np.int16), how))
        s = zarr.storage.MemoryStore(); geff.write(g, s, axis_names=["y","x"])
        g2,_ = geff.read(s, backend="networkx")
        print(how, "sg ok", sorted(g2.nodes(data=True))[:1], sorted(g2.edges(data=True)))
    except Exception as e:
        print(how, "sg EXC", type(e).__name__, str(e)[:120])
