import warnings; warnings.simplefilter("ignore")
import numpy as np, zarr, networkx as nx, geff
def T(name, f):
    try: print(name, "->", f())
    except BaseException as e: print(name, "EXC", type(e).__name__, str(e)[:200])
def nxrt(g, fmt=2, **kw):
    s = zarr.storage.MemoryStore(); geff.write(g, s, zarr_format=fmt, **kw); g2,m = geff.read(s); return list(g2.nodes(data=True)), list(g2.edges(data=True)), g2.is_directed()
g = nx.Graph(); g.add_node(0, p=[2**63]); g.add_node(1, p=[2**64-1, 2**63])
T("ragged all big", lambda: nxrt(g))
g = nx.Graph(); g.add_node(0, p=[1,2]); g.add_node(1, p=[2**63+1, 3, 4])
T("ragged mixed big", lambda: nxrt(g))
g = nx.Graph(); g.add_node(0, p=[1,2]); g.add_node(1, p=[2**63+1, 2**63, 2**64-1])
T("ragged elements differ", lambda: nxrt(g))
g = nx.Graph(); g.add_node(0, p=[2**63+1,2]); g.add_node(1, p=[3, 4])
T("fixed mixed big", lambda: nxrt(g))
g = nx.Graph(); g.add_node(0, p=[2**63+1,2]); g.add_node(1);
T("fixed mixed big missing", lambda: nxrt(g))
g = nx.Graph(); g.add_node(0, p=2**63+1); g.add_node(1, p=-1);
T("neg and big", lambda: nxrt(g))
g = nx.Graph(); g.add_node(0, t=1, x=1.5); g.add_node(1, t=2, x=2.5); g.add_edge(0,1)
def sgr():
    s = zarr.storage.MemoryStore(); geff.write(g, s, axis_names=["t","x"]); g2, m = geff.read(s, backend="spatial-graph"); return g2.node_attrs[g2.nodes].position, g2.edges
T("mixed axes", sgr)
