import GeffProofs.Backends
namespace Geff.Backends
open Geff.Np Geff.Dicts

theorem fillDicts_spec (n : Nat) (props : List (String × Col))
    (hnd : (props.map (·.1)).Nodup) (hwf : ∀ p ∈ props, p.2.WF n) :
    ∃ ds, fillDicts n props = .ok ds ∧ ds.length = n ∧
      ∀ k, k < n → ∀ name, look ds k name = memAttr props k name := by
  obtain ⟨ds, h1, h2, h3⟩ := fillDicts_aux n props (List.replicate n []) (by simp) hnd hwf
  refine ⟨ds, h1, h2, ?_⟩
  intro k hk name
  rw [h3 k hk name]
  have : look (List.replicate n ([] : Attrs)) k name = none := by
    simp [look, hk]
  rw [this]
  unfold memAttr
  cases props.lookup name with
  | none => rfl
  | some c => simp only []; cases c.entry k <;> rfl

/-! ### networkx -/

theorem hasNode_iff (g : NxGraph) (i : Int) : g.hasNode i = true ↔ i ∈ g.nodes.map (·.1) := by
  simp only [NxGraph.hasNode, List.any_eq_true, decide_eq_true_eq, List.mem_map]

theorem foldl_addNode (d : Bool) (ns : List (Int × Attrs)) (es : List ((Int × Int) × Attrs)) (ids : List Int)
    (hnd : ids.Nodup) (hdisj : ∀ i ∈ ids, i ∉ ns.map (·.1)) :
    ids.foldl NxGraph.addNode ⟨d, ns, es⟩ = ⟨d, ns ++ ids.map (fun i => (i, [])), es⟩ := by
  induction ids generalizing ns with
  | nil => simp
  | cons i t ih =>
    have hnd' := List.nodup_cons.1 hnd
    have hno : (⟨d, ns, es⟩ : NxGraph).hasNode i = false := by
      cases h : (⟨d, ns, es⟩ : NxGraph).hasNode i with
      | false => rfl
      | true => exact absurd ((hasNode_iff _ i).1 h) (hdisj i (by simp))
    simp only [List.foldl_cons, NxGraph.addNode, hno, Bool.false_eq_true, if_false]
    rw [ih (ns ++ [(i, [])]) hnd'.2 (by
      intro j hj
      simp only [List.map_append, List.map_cons, List.map_nil, List.mem_append, List.mem_singleton, not_or]
      exact ⟨hdisj j (by simp [hj]), fun h => hnd'.1 (h ▸ hj)⟩)]
    simp

theorem foldlM_setNode (name : String) (kes : List (Int × Option PyVal)) (g : NxGraph)
    (hk : ∀ ke ∈ kes, ke.1 ∈ g.nodes.map (·.1)) :
    kes.foldlM (setNodeStep name) g
      = Except.ok { g with nodes := setMany (fun a b => a = b) name g.nodes kes } := by
  induction kes generalizing g with
  | nil => rfl
  | cons ke t ih =>
    obtain ⟨k, e⟩ := ke
    have hk0 := hk (k, e) (by simp)
    cases e with
    | none =>
      simp only [List.foldlM_cons, setNodeStep, bind, Except.bind]
      rw [ih g (fun q hq => hk q (by simp [hq]))]
      simp [setMany]
    | some v =>
      have hh : g.hasNode k = true := (hasNode_iff g k).2 hk0
      simp only [List.foldlM_cons, setNodeStep, NxGraph.setNodeAttr, hh, if_true, bind, Except.bind]
      rw [ih _ (by
        intro q hq
        simp only [setAt_keys]
        exact hk q (by simp [hq]))]
      simp [setMany]

theorem setNodePropertyValues_zip (g : NxGraph) (ids : List Int) (ds : List Attrs) (name : String) (c : Col)
    (hg : g.nodes = ids.zip ds) (hnd : ids.Nodup) (hlen : ds.length = ids.length) (hwf : c.WF ids.length) :
    setNodePropertyValues g ids name c =
      .ok { g with nodes := ids.zip (setColumn name ds ((List.range ids.length).map c.entry)) } := by
  unfold setNodePropertyValues
  simp only [colEntries_wf c _ hwf]
  rw [foldlM_setNode]
  · have hpw : ids.Pairwise (fun a b => (decide (a = b)) = false) := by
      have := List.nodup_iff_pairwise_ne.1 hnd
      exact this.imp (by intro a b h; simpa using h)
    have := setMany_zip (fun a b => decide (a = b)) (by simp) name ids ds
      ((List.range ids.length).map c.entry) [] hpw (by simp) hlen (by simp)
    simp only [List.nil_append] at this
    rw [hg, this]
  · intro ke hke
    rw [hg]
    have := (List.of_mem_zip hke).1
    simp only [List.map_fst_zip (by omega : ids.length ≤ ds.length)]
    exact this

end Geff.Backends
