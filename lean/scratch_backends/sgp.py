import warnings; warnings.simplefilter("ignore")
import time
import numpy as np, zarr, spatial_graph as sg, geff
from geff.core_io import read_to_memory
t=time.time()
g = sg.create_graph(ndims=2, node_dtype="uint64", node_attr_dtypes={"position":"float64[2]","score":"float32","lab":"int16"}, edge_attr_dtypes={"w":"int16"}, position_attr="position", directed=False)
print("create", time.time()-t)
g.add_nodes(np.array([3,9,4],np.uint64), position=np.array([[1.,4.],[2.,5.],[3.,6.]]), score=np.array([.1,.2,.3],np.float32), lab=np.array([1,2,3],np.int16))
g.add_edges(np.array([[9,3],[9,4]],np.uint64), w=np.array([1,2],np.int16))
print(g.nodes, g.edges, g.directed, g.ndims, g.node_attr_dtypes, g.edge_attr_dtypes, g.roi)
s=zarr.storage.MemoryStore(); geff.write(g, s, axis_names=["y","x"])
m=read_to_memory(s)
print(m["node_ids"], m["edge_ids"], {k:(v["values"].dtype, v["values"].tolist(), v["missing"]) for k,v in m["node_props"].items()}, {k:(v["values"].dtype, v["values"].tolist()) for k,v in m["edge_props"].items()})
t=time.time()
g2,md=geff.read(s, backend="spatial-graph")
print("read", time.time()-t)
print(g2.nodes, g2.edges, g2.node_attr_dtypes, g2.node_attrs[g2.nodes].position, g2.edge_attrs[g2.edges].w)
ad = geff._graph_libs._api_wrapper.get_backend("spatial-graph").graph_adapter(g2)
print(ad.get_node_ids(), ad.get_edge_ids(), ad.get_node_prop("y", 9, md), type(ad.get_node_prop("y", 9, md)), ad.get_node_prop("lab", 9, md), type(ad.get_node_prop("lab",9,md)), ad.get_edge_prop("w",(3,9),md))
import witty, os
print(witty.__file__)
