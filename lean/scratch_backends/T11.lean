import GeffProofs.Backends
namespace Geff.Backends
open Geff.Np Geff.Dicts

/-! ### rustworkx -/

theorem findIdx?_getElem {α : Type} (p : α → Bool) (l : List α) (k : Nat) (h : l.findIdx? p = some k) :
    ∃ hk : k < l.length, p l[k] = true := by
  induction l generalizing k with
  | nil => simp at h
  | cons a t ih =>
    simp only [List.findIdx?_cons] at h
    cases hp : p a with
    | true => simp [hp] at h; subst h; exact ⟨by simp, by simpa using hp⟩
    | false =>
      simp only [hp, Bool.false_eq_true, if_false, Option.map_eq_some_iff] at h
      obtain ⟨k', hk', rfl⟩ := h
      obtain ⟨hk2, hp2⟩ := ih k' hk'
      exact ⟨by simp; omega, by simpa using hp2⟩

theorem findIdx?_none_iff {α : Type} (p : α → Bool) (l : List α) : l.findIdx? p = none ↔ ∀ x ∈ l, p x = false := by
  induction l with
  | nil => simp
  | cons a t ih =>
    simp only [List.findIdx?_cons]
    cases hp : p a with
    | true => simp [hp]
    | false => simp [hp, ih]

theorem findIdx?_congr {α : Type} (p q : α → Bool) (l : List α) (h : ∀ x ∈ l, p x = q x) :
    l.findIdx? p = l.findIdx? q := by
  induction l with
  | nil => rfl
  | cons a t ih =>
    simp only [List.findIdx?_cons, h a (by simp), ih (fun x hx => h x (by simp [hx]))]

theorem findIdx?_map' {α β : Type} (f : α → β) (q : β → Bool) (l : List α) :
    (l.map f).findIdx? q = l.findIdx? (fun x => q (f x)) := by
  induction l with
  | nil => rfl
  | cons a t ih => simp only [List.map_cons, List.findIdx?_cons, ih]

theorem findIdx?_of_mem (ids : List Int) (i : Int) (h : i ∈ ids) : ∃ k, ids.findIdx? (fun x => x = i) = some k := by
  cases hk : ids.findIdx? (fun x => decide (x = i)) with
  | some k => exact ⟨k, rfl⟩
  | none =>
    have := (findIdx?_none_iff _ _).1 hk i h
    simp at this

theorem lookup_dictOfZip_notin {υ : Type} (ks : List Int) (vs : List υ) (i : Int) (h : i ∉ ks) :
    (dictOfZip ks vs).lookup i = none := by
  induction ks generalizing vs with
  | nil => cases vs <;> rfl
  | cons k t ih =>
    cases vs with
    | nil => rfl
    | cons v vt =>
      have hik : i ≠ k := fun e => h (by simp [e])
      have hit : i ∉ t := fun e => h (by simp [e])
      have hb : (i == k) = false := by simpa using hik
      simp only [dictOfZip]
      cases hl : (dictOfZip t vt).lookup k with
      | none => simp [List.lookup_cons, hb, ih vt hit]
      | some v' =>
        simp only [List.lookup_cons, hb]
        rw [List.lookup_eq_none_iff]
        intro q hq
        have hq' := (List.mem_filter.1 hq).1
        have : (dictOfZip t vt).lookup i = none := ih vt hit
        rw [List.lookup_eq_none_iff] at this
        exact this q hq'

theorem lookup_dictOfZip (ks : List Int) (vs : List Nat) (i : Int) (hnd : ks.Nodup) (hlen : vs.length = ks.length) :
    (dictOfZip ks vs).lookup i =
      match ks.findIdx? (fun x => x = i) with
      | none => none
      | some k => vs[k]? := by
  induction ks generalizing vs with
  | nil => cases vs <;> rfl
  | cons k t ih =>
    cases vs with
    | nil => simp at hlen
    | cons v vt =>
      have hnd' := List.nodup_cons.1 hnd
      have hrest : (dictOfZip t vt).lookup k = none := lookup_dictOfZip_notin t vt k hnd'.1
      simp only [dictOfZip, hrest, List.findIdx?_cons]
      by_cases hik : k = i
      · subst hik; simp
      · have hb : (i == k) = false := by simpa using fun e : i = k => hik e.symm
        simp only [List.lookup_cons, hb, hik, decide_false, Bool.false_eq_true, if_false]
        rw [ih vt hnd'.2 (by simpa using hlen)]
        cases t.findIdx? (fun x => decide (x = i)) <;> simp

end Geff.Backends
