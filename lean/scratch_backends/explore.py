import sys, os, json, random, time, collections
sys.path.insert(0, "/verif")
from harness import common
common.setup_impl()
from harness.corr import C03 as H
rng = random.Random(0)
items = H.gen_exhaustive(rng)
print("exhaustive items", len(items))
items += [H.gen_random_graph(rng) for _ in range(300)]
cases = []
for k, it in enumerate(items):
    fmt = 2 + (k % 2)
    cases.append({"G": it["G"], "writer": "nx", "fmt": fmt, "tag": it["tag"], "kinds": it["kinds"], "ids": it["ids"]})
    for lay in H.rx_variants(rng, it, it["tag"].startswith("exh")):
        cases.append({"G": it["G"], "writer": "rx", "layout": lay, "fmt": fmt, "tag": it["tag"], "kinds": it["kinds"], "ids": it["ids"]})
print("cases", len(cases))
t = time.time()
res = common.pmap(H.impl_roundtrip, cases, chunksize=32)
print("time", time.time() - t)
cnt = collections.Counter(); ex = {}
for c, r in zip(cases, res):
    if r["write"] != "ok":
        key = ("write", c["writer"], r["write"]["exc"], r["write"]["msg"][:50], c["ids"], tuple(sorted(c["kinds"].values())))
        cnt[key] += 1; ex.setdefault(key, c); continue
    for rd, o in r["reads"].items():
        if "exc" in o:
            key = ("read", c["writer"], rd, o["exc"], o["msg"][:50]); cnt[key] += 1; ex.setdefault(key, c); continue
        d = H.diff_graphs(c["G"], o)
        if d:
            key = ("diff", c["writer"], rd, d[0][0], c["ids"], tuple(sorted(c["kinds"].values()))); cnt[key] += 1; ex.setdefault(key, (c, d[0]))
        a = r["adapters"].get(rd)
        if a is None: continue
        if "exc" in a:
            key = ("adapter-exc", rd, a["exc"], c["ids"]); cnt[key] += 1; ex.setdefault(key, c); continue
        d = H.diff_graphs(o, a)
        if d:
            key = ("adapter-diff", rd, d[0][0], c["ids"]); cnt[key] += 1; ex.setdefault(key, (c, d[0]))
for k, v in sorted(cnt.items(), key=lambda kv: -kv[1]):
    print(v, k)
json.dump({str(k): v for k, v in ex.items()}, open("explore_out.json", "w"), indent=1, default=str)
