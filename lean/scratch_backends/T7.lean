import GeffProofs.Dicts
namespace Geff.Backends
open Geff.Np Geff.Dicts

variable {κ : Type}

theorem setAt_keys (same : κ → κ → Bool) (l : List (κ × Attrs)) (k : κ) (n : String) (v : PyVal) :
    (setAt same l k n v).map (·.1) = l.map (·.1) := by
  induction l with
  | nil => rfl
  | cons p t ih =>
    obtain ⟨k', a⟩ := p
    simp only [setAt]
    split <;> simp [ih]

theorem setAt_append (same : κ → κ → Bool) (pre l : List (κ × Attrs)) (k : κ) (n : String) (v : PyVal)
    (h : ∀ a ∈ pre, same a.1 k = false) :
    setAt same (pre ++ l) k n v = pre ++ setAt same l k n v := by
  induction pre with
  | nil => rfl
  | cons p t ih =>
    obtain ⟨k', a⟩ := p
    have h1 : same k' k = false := h (k', a) (by simp)
    simp only [List.cons_append, setAt, h1, Bool.false_eq_true, if_false]
    rw [ih (fun b hb => h b (by simp [hb]))]

/-- the loop `for key, entry in zip(keys, entries): if entry present: l[key][name] = entry` -/
def setMany (same : κ → κ → Bool) (name : String) (l : List (κ × Attrs)) (kes : List (κ × Option PyVal)) :
    List (κ × Attrs) :=
  kes.foldl (fun l ke => match ke.2 with
    | none => l
    | some v => setAt same l ke.1 name v) l

theorem setMany_keys (same : κ → κ → Bool) (name : String) (l : List (κ × Attrs)) (kes : List (κ × Option PyVal)) :
    (setMany same name l kes).map (·.1) = l.map (·.1) := by
  induction kes generalizing l with
  | nil => rfl
  | cons ke t ih =>
    simp only [setMany, List.foldl_cons]
    cases h : ke.2 with
    | none => simpa [setMany] using ih l
    | some v =>
      have := ih (setAt same l ke.1 name v)
      simp only [setMany] at this
      rw [this, setAt_keys]

/-- with keys that are pairwise not `same` (an earlier one never matches a later one), addressing
by key is addressing by position -/
theorem setMany_zip (same : κ → κ → Bool) (hrefl : ∀ a, same a a = true) (name : String)
    (keys : List κ) (ds : List Attrs) (es : List (Option PyVal)) (pre : List (κ × Attrs))
    (hpw : keys.Pairwise (fun a b => same a b = false))
    (hpre : ∀ a ∈ pre, ∀ b ∈ keys, same a.1 b = false)
    (hd : ds.length = keys.length) (he : es.length = keys.length) :
    setMany same name (pre ++ keys.zip ds) (keys.zip es) = pre ++ keys.zip (setColumn name ds es) := by
  induction keys generalizing ds es pre with
  | nil => simp [setMany]
  | cons k ks ih =>
    cases ds with
    | nil => simp at hd
    | cons d dt =>
      cases es with
      | nil => simp at he
      | cons e et =>
        have hd' : dt.length = ks.length := by simpa using hd
        have he' : et.length = ks.length := by simpa using he
        have hpw' := (List.pairwise_cons.1 hpw)
        have key : ∀ d' : Attrs, setMany same name (pre ++ (k, d') :: ks.zip dt) (ks.zip et) =
            pre ++ (k, d') :: ks.zip (setColumn name dt et) := by
          intro d'
          have := ih dt et (pre ++ [(k, d')]) hpw'.2 (by
            intro a ha b hb
            rcases List.mem_append.1 ha with ha | ha
            · exact hpre a ha b (by simp [hb])
            · have : a = (k, d') := by simpa using ha
              subst this
              exact hpw'.1 b hb) hd' he'
          simpa using this
        cases e with
        | none =>
          simp only [List.zip_cons_cons, setMany, List.foldl_cons, setColumn]
          exact key d
        | some v =>
          simp only [List.zip_cons_cons, setMany, List.foldl_cons, setColumn]
          rw [setAt_append same pre _ k name v (fun a ha => hpre a ha k (by simp))]
          simp only [setAt, hrefl k, if_true]
          exact key (d.set name v)

theorem find?_zip (p : κ → Bool) (keys : List κ) (ds : List Attrs) (hlen : ds.length = keys.length) :
    (keys.zip ds).find? (fun x => p x.1) =
      match keys.findIdx? p with
      | none => none
      | some k => (keys.zip ds)[k]? := by
  induction keys generalizing ds with
  | nil => simp
  | cons a t ih =>
    cases ds with
    | nil => simp at hlen
    | cons d dt =>
      have hlen' : dt.length = t.length := by simpa using hlen
      simp only [List.zip_cons_cons, List.find?_cons, List.findIdx?_cons]
      cases hp : p a with
      | true => simp
      | false =>
        simp only [Bool.false_eq_true, if_false]
        rw [ih dt hlen']
        cases t.findIdx? p <;> simp

end Geff.Backends
