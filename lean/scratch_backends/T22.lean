import GeffProofs.C03Aux
namespace GeffProps.C03
open Geff.Np Geff.Dicts Geff.Backends

/-- column `k` of `position` as a scalar property (`values[:, k]`; `IndexError` beyond `ndims`) -/
def axisColumn (g : SgGraph) (name : String) (k : Nat) : Except Err (String × Col) :=
  match mapE (fun (r : List Val) => match r[k]? with
      | some v => .ok (([], [v]) : Row)
      | none => .error Err.indexError) g.position with
  | .error e => .error e
  | .ok rows => .ok (name, { dtype := g.posDtype, varlen := false, rows := rows, missing := none })

def zipIdx' (l : List String) : List (String × Nat) := l.zip (List.range l.length)

def sgWrite' (g : SgGraph) (axisNames : List String) : Except Err MemGeff :=
  if g.ndims ≠ axisNames.length ∧ !g.nodes.isEmpty then .error .valueError
  else
    match mapE (fun (p : String × Nat) => axisColumn g p.1 p.2) (zipIdx' axisNames) with
    | .error e => .error e
    | .ok axisCols =>
      .ok { directed := g.directed, nodeIds := g.nodes, edgeIds := g.edges,
            nodeProps := g.nodeAttrs.filter (fun p => !axisNames.contains p.1) ++ axisCols,
            edgeProps := g.edgeAttrs }

/-- documented domain of a spatial-graph graph written with `axis_names` -/
structure SgGraphDomain (g : SgGraph) (names : List String) : Prop where
  nodup : g.nodes.Nodup
  nonempty : g.nodes ≠ []
  endpoints : ∀ e ∈ g.edges, e.1 ∈ g.nodes ∧ e.2 ∈ g.nodes
  simple : g.edges.Pairwise (fun a b => sameEdge g.directed a b = false)
  ndims : g.ndims = names.length
  axes : names ≠ []
  axesNodup : names.Nodup
  posLen : g.position.length = g.nodes.length
  posRows : ∀ r ∈ g.position, r.length = g.ndims
  posDtype : sgDtypeOk g.posDtype = true
  nodeNames : (g.nodeAttrs.map (·.1)).Nodup
  disjoint : ∀ p ∈ g.nodeAttrs, p.1 ∉ names
  nodeCols : ∀ p ∈ g.nodeAttrs, p.2.WF g.nodes.length ∧ sgColOk p.2 = true ∧ p.2.missing = none
  edgeNames : (g.edgeAttrs.map (·.1)).Nodup
  edgeCols : ∀ p ∈ g.edgeAttrs, p.2.WF g.edges.length ∧ sgColOk p.2 = true ∧ p.2.missing = none

def axisColOf (g : SgGraph) (k : Nat) : Col :=
  { dtype := g.posDtype, varlen := false, rows := g.position.map (fun r => (([], [r.getD k default]) : Row)), missing := none }

theorem axisColumn_ok (g : SgGraph) (name : String) (k : Nat) (hk : ∀ r ∈ g.position, k < r.length) :
    axisColumn g name k = .ok (name, axisColOf g k) := by
  unfold axisColumn
  have : mapE (fun (r : List Val) => match r[k]? with
      | some v => .ok (([], [v]) : Row)
      | none => .error Err.indexError) g.position = .ok (g.position.map (fun r => (([], [r.getD k default]) : Row))) := by
    apply mapE_ok_map
    intro r hr
    have := hk r hr
    simp [List.getElem?_eq_getElem this, List.getD_eq_getElem?_getD]
  simp only [this, axisColOf]

theorem filter_disjoint (props : List (String × Col)) (names : List String) (h : ∀ p ∈ props, p.1 ∉ names) :
    props.filter (fun p => !names.contains p.1) = props := by
  apply List.filter_eq_self.2
  intro p hp
  have := h p hp
  simpa using this

theorem lookup_append' {β : Type} (l1 l2 : List (String × β)) (k : String) :
    (l1 ++ l2).lookup k = match l1.lookup k with
      | some v => some v
      | none => l2.lookup k := by
  induction l1 with
  | nil => rfl
  | cons p t ih =>
    obtain ⟨k', v'⟩ := p
    simp only [List.cons_append, lookup_cons_ite]
    by_cases hk : k = k'
    · simp [hk]
    · simp [hk, ih]

/-- lookup in `names.zip (range n)` mapped to columns: the column of the name's index -/
theorem lookup_axisCols (g : SgGraph) (names : List String) (hnd : names.Nodup) (name : String) (off : Nat) :
    ((names.zip (List.range' off names.length)).map (fun p => (p.1, axisColOf g p.2))).lookup name =
      (names.findIdx? (fun x => x = name)).map (fun a => axisColOf g (off + a)) := by
  induction names generalizing off with
  | nil => rfl
  | cons a t ih =>
    have hnd' := List.nodup_cons.1 hnd
    simp only [List.length_cons, List.range'_succ, List.zip_cons_cons, List.map_cons, lookup_cons_ite,
      List.findIdx?_cons]
    by_cases h : a = name
    · subst h; simp
    · have h' : ¬ name = a := fun e => h e.symm
      simp only [h', if_false, h, decide_false, Bool.false_eq_true]
      rw [ih hnd'.2 (off + 1)]
      cases t.findIdx? (fun x => decide (x = name)) with
      | none => rfl
      | some k => simp; congr 1; omega

end GeffProps.C03

namespace GeffProps.C03
open Geff.Np Geff.Dicts Geff.Backends

abbrev sgMemOf (g : SgGraph) (axisCols : List (String × Col)) : MemGeff :=
  { directed := g.directed, nodeIds := g.nodes, edgeIds := g.edges,
    nodeProps := g.nodeAttrs ++ axisCols, edgeProps := g.edgeAttrs }

theorem sgWrite_spec (g : SgGraph) (names : List String) (h : SgGraphDomain g names) :
    ∃ m, sgWrite' g names = .ok m ∧ SgDomain m names ∧ memObs m = sgObs names g := by
  have hguard : ¬ (g.ndims ≠ names.length ∧ (!g.nodes.isEmpty) = true) := fun hc => hc.1 h.ndims
  have hrowlen : ∀ k, k < names.length → ∀ r ∈ g.position, k < r.length := by
    intro k hk r hr; rw [h.posRows r hr, h.ndims]; exact hk
  obtain ⟨axisCols, haxdef⟩ : ∃ t, t = (names.zip (List.range' 0 names.length)).map (fun p => (p.1, axisColOf g p.2)) := ⟨_, rfl⟩
  have hmap : mapE (fun (p : String × Nat) => axisColumn g p.1 p.2) (zipIdx' names) = .ok axisCols := by
    rw [haxdef, zipIdx', List.range_eq_range']
    apply mapE_ok_map
    intro p hp
    have hk : p.2 < names.length := by
      have := (List.of_mem_zip hp).2
      simpa using (List.mem_range'_1.1 this).2
    exact axisColumn_ok g p.1 p.2 (hrowlen p.2 hk)
  have hfilter := filter_disjoint g.nodeAttrs names h.disjoint
  have hkeys : axisCols.map (·.1) = names := by
    rw [haxdef, List.map_map]
    have : ((fun p : String × Col => p.1) ∘ fun p : String × Nat => (p.1, axisColOf g p.2)) = (fun p => p.1) := rfl
    rw [this, List.map_fst_zip (by simp)]
  have hlookAx : ∀ name, axisCols.lookup name = (names.findIdx? (fun x => x = name)).map (fun a => axisColOf g a) := by
    intro name
    rw [haxdef, lookup_axisCols g names h.axesNodup name 0]
    simp
  have hattrNone : ∀ name ∈ names, g.nodeAttrs.lookup name = none := by
    intro name hn
    apply lookup_none_of_not_mem
    intro hm
    obtain ⟨p, hp, rfl⟩ := List.mem_map.1 hm
    exact h.disjoint p hp hn
  have hlook : ∀ name, (g.nodeAttrs ++ axisCols).lookup name =
      match names.findIdx? (fun x => x = name) with
      | some a => some (axisColOf g a)
      | none => g.nodeAttrs.lookup name := by
    intro name
    rw [lookup_append', hlookAx]
    cases ha : names.findIdx? (fun x => decide (x = name)) with
    | some a =>
      obtain ⟨halt, hpa⟩ := findIdx?_getElem _ _ a ha
      have hnm : names[a] = name := by simpa using hpa
      have hmem : name ∈ names := by rw [← hnm]; exact List.getElem_mem halt
      rw [hattrNone name hmem]; rfl
    | none => cases g.nodeAttrs.lookup name <;> rfl
  have hvalid : MemValid (sgMemOf g axisCols) :=
    { nodup := h.nodup, endpoints := h.endpoints, simple := h.simple,
      nodeNames := by
        simp only [sgMemOf, List.map_append, hkeys]
        apply List.nodup_append.2
        refine ⟨h.nodeNames, h.axesNodup, ?_⟩
        intro a ha b hb hab
        obtain ⟨p, hp, rfl⟩ := List.mem_map.1 ha
        exact h.disjoint p hp (hab ▸ hb)
      edgeNames := h.edgeNames,
      nodeCols := by
        intro p hp
        rcases List.mem_append.1 hp with hp | hp
        · exact (h.nodeCols p hp).1
        · rw [haxdef] at hp
          obtain ⟨q, _, rfl⟩ := List.mem_map.1 hp
          exact ⟨by simp [axisColOf, h.posLen], by intro ms hms; simp [axisColOf] at hms⟩
      edgeCols := fun p hp => (h.edgeCols p hp).1 }
  refine ⟨sgMemOf g axisCols, by simp only [sgWrite', hguard, if_false, hmap, hfilter, sgMemOf], ?_, ?_⟩
  · exact
      { valid := hvalid, nonempty := h.nonempty, axes := h.axes,
        axisCols := ⟨g.posDtype, h.posDtype, by
          intro a ha
          obtain ⟨k, hk⟩ : ∃ k, names.findIdx? (fun x => decide (x = a)) = some k := by
            cases hk : names.findIdx? (fun x => decide (x = a)) with
            | some k => exact ⟨k, rfl⟩
            | none => have := (findIdx?_none_iff _ _).1 hk a ha; simp at this
          refine ⟨axisColOf g k, by simp only [hlook, hk], rfl, rfl, rfl, ?_⟩
          intro r hr
          simp only [axisColOf, List.mem_map] at hr
          obtain ⟨r', _, rfl⟩ := hr
          exact ⟨_, rfl⟩⟩,
        otherNode := by
          intro p hp hnot
          rcases List.mem_append.1 hp with hp | hp
          · exact (h.nodeCols p hp).2
          · exact absurd (by rw [← hkeys]; exact List.mem_map.2 ⟨p, hp, rfl⟩) hnot
        edgeCols := fun p hp => (h.edgeCols p hp).2 }
  · simp only [sgObs, memObs, Obs.mk.injEq]
    refine ⟨trivial, ?_, ?_, ?_, ?_⟩
    · funext i
      simp only [SgGraph.hasNode]
      rw [Bool.eq_iff_iff]
      simp [List.any_eq_true]
    · funext e; rfl
    · funext i name
      simp only [SgGraph.nodeAttr, specNodeAttr]
      cases hk : g.nodes.findIdx? (fun x => decide (x = i)) with
      | none => rfl
      | some k =>
        have hklt := findIdx?_lt _ _ k hk
        simp only [memAttr, hlook]
        cases ha : names.findIdx? (fun x => decide (x = name)) with
        | some a =>
          have halt := findIdx?_lt _ _ a ha
          simp only []
          rw [entry_nomissing _ _ rfl rfl]
          simp only [axisColOf, List.getElem?_map]
          cases hr : g.position[k]? with
          | none => rfl
          | some r =>
            have hrm : r ∈ g.position := List.mem_of_getElem? hr
            have hal : a < r.length := hrowlen a halt r hrm
            simp [rowToPy, List.getElem?_eq_getElem hal, List.getD_eq_getElem?_getD]
        | none =>
          simp only []
          cases hl : g.nodeAttrs.lookup name with
          | none => rfl
          | some c =>
            have hc := h.nodeCols (name, c) (lookup_mem _ _ _ hl)
            have hvl : c.varlen = false := by
              have := hc.2.1
              simp only [sgColOk, Bool.and_eq_true, Bool.not_eq_true'] at this
              exact this.1.2
            simp only []
            rw [entry_nomissing c k hc.2.2 hvl]
    · funext e name
      simp only [SgGraph.edgeAttr, specEdgeAttr]
      cases hk : g.edges.findIdx? (fun x => sameEdge g.directed x e) with
      | none => rfl
      | some k =>
        simp only [memAttr]
        cases hl : g.edgeAttrs.lookup name with
        | none => rfl
        | some c =>
          have hc := h.edgeCols (name, c) (lookup_mem _ _ _ hl)
          have hvl : c.varlen = false := by
            have := hc.2.1
            simp only [sgColOk, Bool.and_eq_true, Bool.not_eq_true'] at this
            exact this.1.2
          simp only []
          rw [entry_nomissing c k hc.2.2 hvl]

end GeffProps.C03
