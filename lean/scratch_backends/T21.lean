import GeffProofs.C03Aux
namespace GeffProps.C03
open Geff.Np Geff.Dicts Geff.Backends

def sgObs (axes : List String) (g : SgGraph) : Obs :=
  ⟨g.directed, g.hasNode, g.hasEdge, g.nodeAttr axes, g.edgeAttr⟩

/-- the documented domain of the spatial-graph backend: a valid, non-empty geff with ≥ 1 axis;
every axis is a scalar, non-missing node property and all axes have one numeric dtype (different
dtypes are promoted: known finding `C03:sg-mixed-axis-dtypes`); every other property is numeric,
regular (scalar or 1-d per element) and non-missing -/
structure SgDomain (m : MemGeff) (names : List String) : Prop where
  valid : MemValid m
  nonempty : m.nodeIds ≠ []
  axes : names ≠ []
  axisCols : ∃ pd, sgDtypeOk pd = true ∧ ∀ a ∈ names, ∃ c, m.nodeProps.lookup a = some c ∧ c.dtype = pd ∧
    c.missing = none ∧ c.varlen = false ∧ ∀ r ∈ c.rows, ∃ v, r = (([], [v]) : Row)
  otherNode : ∀ p ∈ m.nodeProps, p.1 ∉ names → sgColOk p.2 = true ∧ p.2.missing = none
  edgeCols : ∀ p ∈ m.edgeProps, sgColOk p.2 = true ∧ p.2.missing = none

def colOf (props : List (String × Col)) (a : String) : Col := (props.lookup a).getD default
def leafAt (i : Nat) (c : Col) : Val :=
  match c.rows[i]? with
  | some ([], [v]) => v
  | _ => default

theorem lookup_filter_notin (props : List (String × Col)) (names : List String) (name : String)
    (h : name ∉ names) :
    (props.filter (fun p => !names.contains p.1)).lookup name = props.lookup name := by
  induction props with
  | nil => rfl
  | cons p t ih =>
    obtain ⟨k, c⟩ := p
    simp only [List.filter_cons]
    by_cases hk : names.contains k = true
    · have hne : name ≠ k := by
        intro e; subst e; exact h (by simpa using hk)
      simp only [hk, Bool.not_true, Bool.false_eq_true, if_false, lookup_cons_ite, hne, ih]
    · simp only [hk, Bool.not_false, if_true, lookup_cons_ite, ih]

theorem entry_nomissing (c : Col) (k : Nat) (hm : c.missing = none) (hv : c.varlen = false) :
    c.entry k = (c.rows[k]?).map (rowToPy false) := by
  simp only [Col.entry, hm, hv]
  cases c.rows[k]? <;> rfl

theorem sgConstruct_spec (m : MemGeff) (names : List String) (h : SgDomain m names) :
    ∃ g, sgConstruct m (some names) = .ok g ∧ sgObs names g = memObs m := by
  obtain ⟨pd, hpd, hax⟩ := h.axisCols
  have hn : axisNamesOf m (some names) = .ok names := by
    cases hnm : names with
    | nil => exact absurd hnm h.axes
    | cons a t => rfl
  have hcols : mapE (axisCol m.nodeProps) names = .ok (names.map (colOf m.nodeProps)) := by
    apply mapE_ok_map
    intro a ha
    obtain ⟨c, hc, _⟩ := hax a ha
    simp [axisCol, colOf, hc]
  have hcolfacts : ∀ a ∈ names, m.nodeProps.lookup a = some (colOf m.nodeProps a) ∧
      (colOf m.nodeProps a).dtype = pd ∧ (colOf m.nodeProps a).missing = none ∧
      (colOf m.nodeProps a).varlen = false ∧
      ∀ r ∈ (colOf m.nodeProps a).rows, ∃ v, r = (([], [v]) : Row) := by
    intro a ha
    obtain ⟨c, hc, h1, h2, h3, h4⟩ := hax a ha
    have : colOf m.nodeProps a = c := by simp [colOf, hc]
    rw [this]; exact ⟨hc, h1, h2, h3, h4⟩
  have hwfcol : ∀ a ∈ names, (colOf m.nodeProps a).WF m.nodeIds.length := by
    intro a ha
    exact h.valid.nodeCols (a, colOf m.nodeProps a) (lookup_mem _ _ _ (hcolfacts a ha).1)
  have hok : (!((m.nodeProps.filter (fun p => !names.contains p.1)).all (fun p => sgColOk p.2) &&
      m.edgeProps.all (fun p => sgColOk p.2))) = false := by
    have h1 : (m.nodeProps.filter (fun p => !names.contains p.1)).all (fun p => sgColOk p.2) = true := by
      simp only [List.all_eq_true, List.mem_filter]
      intro p ⟨hp, hnot⟩
      exact (h.otherNode p hp (by simpa using hnot)).1
    have h2 : m.edgeProps.all (fun p => sgColOk p.2) = true := by
      simp only [List.all_eq_true]
      intro p hp; exact (h.edgeCols p hp).1
    rw [h1, h2]; rfl
  have hne : m.nodeIds.isEmpty = false := by
    cases hm : m.nodeIds with
    | nil => exact absurd hm h.nonempty
    | cons a t => rfl
  have hpdt : posDtypeOf (names.map (colOf m.nodeProps)) = .ok pd := by
    cases hnm : names with
    | nil => exact absurd hnm h.axes
    | cons a t =>
      have ha := (hcolfacts a (by simp [hnm])).2.1
      have hall : (t.map (colOf m.nodeProps)).all (fun c' => c'.dtype = (colOf m.nodeProps a).dtype) = true := by
        simp only [List.all_eq_true, List.mem_map, decide_eq_true_eq]
        rintro c ⟨b, hb, rfl⟩
        rw [(hcolfacts b (by simp [hnm, hb])).2.1, ha]
      simp only [List.map_cons, posDtypeOf]
      rw [if_pos ⟨hall, by rw [ha]; exact hpd⟩, ha]
  have hscalar : ∀ i, i < m.nodeIds.length → ∀ a ∈ names,
      (colOf m.nodeProps a).rows[i]? = some ([], [leafAt i (colOf m.nodeProps a)]) := by
    intro i hi a ha
    have hlen : i < (colOf m.nodeProps a).rows.length := by rw [(hwfcol a ha).1]; exact hi
    obtain ⟨v, hv⟩ := (hcolfacts a ha).2.2.2.2 _ (List.getElem_mem hlen)
    have : (colOf m.nodeProps a).rows[i]? = some ([], [v]) := by
      rw [List.getElem?_eq_getElem hlen, hv]
    simp [leafAt, this]
  have hstack : stackCols m.nodeIds.length (names.map (colOf m.nodeProps)) =
      .ok ((List.range m.nodeIds.length).map (fun i => (names.map (colOf m.nodeProps)).map (leafAt i))) := by
    unfold stackCols
    apply mapE_ok_map
    intro i hi
    apply mapE_ok_map
    intro c hc
    obtain ⟨a, ha, rfl⟩ := List.mem_map.1 hc
    simp [scalarAt, hscalar i (List.mem_range.1 hi) a ha]
  refine ⟨{ directed := m.directed, ndims := names.length, posDtype := pd, nodes := m.nodeIds,
            position := (List.range m.nodeIds.length).map (fun i => (names.map (colOf m.nodeProps)).map (leafAt i)),
            nodeAttrs := m.nodeProps.filter (fun p => !names.contains p.1), edges := m.edgeIds,
            edgeAttrs := m.edgeProps },
          by simp only [sgConstruct, hn, hcols, hok, hne, hpdt, hstack, Bool.false_eq_true, if_false], ?_⟩
  simp only [sgObs, memObs, Obs.mk.injEq]
  refine ⟨trivial, ?_, ?_, ?_, ?_⟩
  · funext i
    simp only [SgGraph.hasNode]
    rw [Bool.eq_iff_iff]
    simp [List.any_eq_true]
  · funext e; rfl
  · funext i name
    simp only [SgGraph.nodeAttr, specNodeAttr]
    cases hk : m.nodeIds.findIdx? (fun x => decide (x = i)) with
    | none => rfl
    | some k =>
      have hklt := findIdx?_lt _ _ k hk
      simp only [memAttr]
      cases ha : names.findIdx? (fun x => decide (x = name)) with
      | some a =>
        obtain ⟨halt, hpa⟩ := findIdx?_getElem _ _ a ha
        have hnm : names[a] = name := by simpa using hpa
        have hmem : name ∈ names := by rw [← hnm]; exact List.getElem_mem halt
        have hf := hcolfacts name hmem
        have hpos : ((List.range m.nodeIds.length).map (fun i => (names.map (colOf m.nodeProps)).map (leafAt i)))[k]? =
            some ((names.map (colOf m.nodeProps)).map (leafAt k)) := by
          simp [hklt]
        have hcell : ((names.map (colOf m.nodeProps)).map (leafAt k))[a]? = some (leafAt k (colOf m.nodeProps name)) := by
          simp [halt, hnm]
        simp only [hpos, hcell, hf.1, Option.map_some]
        rw [entry_nomissing _ _ hf.2.2.1 hf.2.2.2.1, hscalar k hklt name hmem]
        rfl
      | none =>
        have hnot : name ∉ names := by
          intro hin
          have := (findIdx?_none_iff _ _).1 ha name hin
          simp at this
        simp only [lookup_filter_notin m.nodeProps names name hnot]
        cases hl : m.nodeProps.lookup name with
        | none => rfl
        | some c =>
          have hp := lookup_mem _ _ _ hl
          have hc := h.otherNode (name, c) hp hnot
          have hvl : c.varlen = false := by
            have := hc.1
            simp only [sgColOk, Bool.and_eq_true, Bool.not_eq_true'] at this
            exact this.1.2
          simp only []
          rw [entry_nomissing c k hc.2 hvl]
  · funext e name
    simp only [SgGraph.edgeAttr, specEdgeAttr]
    cases hk : m.edgeIds.findIdx? (fun x => sameEdge m.directed x e) with
    | none => rfl
    | some k =>
      simp only [memAttr]
      cases hl : m.edgeProps.lookup name with
      | none => rfl
      | some c =>
        have hp := lookup_mem _ _ _ hl
        have hc := h.edgeCols (name, c) hp
        have hvl : c.varlen = false := by
          have := hc.1
          simp only [sgColOk, Bool.and_eq_true, Bool.not_eq_true'] at this
          exact this.1.2
        simp only []
        rw [entry_nomissing c k hc.2 hvl]

end GeffProps.C03
