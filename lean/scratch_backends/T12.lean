import GeffProofs.Backends
namespace Geff.Backends
open Geff.Np Geff.Dicts

/-- position of node id `i` in the id list (0 when absent; only used on members) -/
def posOf (ids : List Int) (i : Int) : Nat := (ids.findIdx? (fun x => x = i)).getD 0

theorem posOf_spec (ids : List Int) (i : Int) (h : i ∈ ids) :
    ids.findIdx? (fun x => x = i) = some (posOf ids i) ∧ ∃ hk : posOf ids i < ids.length, ids[posOf ids i] = i := by
  obtain ⟨k, hk⟩ := findIdx?_of_mem ids i h
  have : posOf ids i = k := by simp [posOf, hk]
  rw [this]
  obtain ⟨hlt, hp⟩ := findIdx?_getElem _ ids k hk
  exact ⟨hk, hlt, by simpa using hp⟩

theorem posOf_inj (ids : List Int) (i j : Int) (hi : i ∈ ids) (hj : j ∈ ids) (h : posOf ids i = posOf ids j) : i = j := by
  obtain ⟨_, hk1, h1⟩ := posOf_spec ids i hi
  obtain ⟨_, hk2, h2⟩ := posOf_spec ids j hj
  rw [← h1, ← h2]
  simp [h]

theorem toRx_lookup (ids : List Int) (hnd : ids.Nodup) (i : Int) :
    (dictOfZip ids (List.range ids.length)).lookup i = ids.findIdx? (fun x => x = i) := by
  rw [lookup_dictOfZip ids (List.range ids.length) i hnd (by simp)]
  cases h : ids.findIdx? (fun x => decide (x = i)) with
  | none => rfl
  | some k =>
    have := findIdx?_lt _ _ k h
    simp [this]

theorem rxConstruct_spec (m : MemGeff) (h : MemValid m) :
    ∃ g, rxConstruct m = .ok g ∧ g.directed = m.directed ∧
      (∀ i, g.hasNode i = decide (i ∈ m.nodeIds)) ∧
      (∀ i name, g.nodeAttr i name = specNodeAttr m i name) ∧
      (∀ e name, g.edgeAttr e name = specEdgeAttr m e name) := by
  obtain ⟨ds, hds, hdl, hlook⟩ := fillDicts_spec m.nodeIds.length m.nodeProps h.nodeNames h.nodeCols
  obtain ⟨es, hes, hel, helook⟩ := fillDicts_spec m.edgeIds.length m.edgeProps h.edgeNames h.edgeCols
  obtain ⟨toRx, htoRx⟩ : ∃ t, t = dictOfZip m.nodeIds (List.range m.nodeIds.length) := ⟨_, rfl⟩
  have hlk : ∀ i, toRx.lookup i = m.nodeIds.findIdx? (fun x => x = i) := by
    rw [htoRx]; exact toRx_lookup m.nodeIds h.nodup
  -- the index pairs of the edges
  obtain ⟨idx, hidxdef⟩ : ∃ t, t = m.edgeIds.map (fun e => (posOf m.nodeIds e.1, posOf m.nodeIds e.2)) := ⟨_, rfl⟩
  have hidx : mapE (rxEdgeIdx toRx) m.edgeIds = .ok idx := by
    rw [hidxdef]
    apply mapE_ok_map
    intro e he
    have hend := h.endpoints e he
    simp only [rxEdgeIdx, hlk, (posOf_spec _ _ hend.1).1, (posOf_spec _ _ hend.2).1]
  have hedges : rxEdges toRx m.edgeIds m.edgeProps = .ok (if m.edgeIds.isEmpty then [] else idx.zip es) := by
    unfold rxEdges
    by_cases hemp : m.edgeIds.isEmpty = true
    · simp [hemp]
    · simp only [hemp, Bool.false_eq_true, if_false, hidx, hes]
  refine ⟨{ directed := m.directed, slots := ds.map some,
            edges := if m.edgeIds.isEmpty then [] else idx.zip es, idMap := some toRx },
          by unfold rxConstruct; simp only [hds]; rw [← htoRx, hedges], rfl, ?_, ?_, ?_⟩
  · intro i
    simp only [RxGraph.hasNode, RxGraph.rxId, hlk]
    cases hk : m.nodeIds.findIdx? (fun x => decide (x = i)) with
    | none =>
      have := (findIdx?_none_iff _ _).1 hk
      have hni : i ∉ m.nodeIds := fun hin => by simpa using this i hin
      simp [hni]
    | some k =>
      obtain ⟨hlt, hp⟩ := findIdx?_getElem _ _ k hk
      have hin : i ∈ m.nodeIds := by
        have : m.nodeIds[k] = i := by simpa using hp
        rw [← this]; exact List.getElem_mem hlt
      have : k < ds.length := by omega
      simp [hin, this]
  · intro i name
    simp only [RxGraph.nodeAttr, RxGraph.rxId, hlk, specNodeAttr]
    cases hk : m.nodeIds.findIdx? (fun x => decide (x = i)) with
    | none => rfl
    | some k =>
      have hlt := findIdx?_lt _ _ k hk
      have hk' : k < ds.length := by omega
      have := hlook k hlt name
      simp only [look, List.getElem?_eq_getElem hk'] at this
      simp [hk', this]
  · intro e name
    simp only [RxGraph.edgeAttr, RxGraph.rxId, hlk, specEdgeAttr]
    -- an edge with an endpoint outside the node list is no edge of a valid geff
    have hnone : (e.1 ∉ m.nodeIds ∨ e.2 ∉ m.nodeIds) →
        m.edgeIds.findIdx? (fun x => sameEdge m.directed x e) = none := by
      intro hout
      rw [findIdx?_none_iff]
      intro x hx
      have hend := h.endpoints x hx
      cases hs : sameEdge m.directed x e with
      | false => rfl
      | true =>
        exfalso
        simp only [sameEdge, Bool.or_eq_true, decide_eq_true_eq, Bool.and_eq_true, Bool.not_eq_true'] at hs
        rcases hs with hs | ⟨_, hs⟩
        · subst hs; rcases hout with ho | ho
          · exact ho hend.1
          · exact ho hend.2
        · rw [hs] at hend; rcases hout with ho | ho
          · exact ho hend.2
          · exact ho hend.1
    cases hk1 : m.nodeIds.findIdx? (fun x => decide (x = e.1)) with
    | none =>
      have hni : e.1 ∉ m.nodeIds := fun hin => by
        have := (findIdx?_none_iff _ _).1 hk1 e.1 hin; simp at this
      rw [hnone (Or.inl hni)]
    | some a =>
      cases hk2 : m.nodeIds.findIdx? (fun x => decide (x = e.2)) with
      | none =>
        have hni : e.2 ∉ m.nodeIds := fun hin => by
          have := (findIdx?_none_iff _ _).1 hk2 e.2 hin; simp at this
        rw [hnone (Or.inr hni)]
      | some b =>
        obtain ⟨hlta, hpa⟩ := findIdx?_getElem _ _ a hk1
        obtain ⟨hltb, hpb⟩ := findIdx?_getElem _ _ b hk2
        have hin1 : e.1 ∈ m.nodeIds := by
          have : m.nodeIds[a] = e.1 := by simpa using hpa
          rw [← this]; exact List.getElem_mem hlta
        have hin2 : e.2 ∈ m.nodeIds := by
          have : m.nodeIds[b] = e.2 := by simpa using hpb
          rw [← this]; exact List.getElem_mem hltb
        have ha : posOf m.nodeIds e.1 = a := by simp [posOf, hk1]
        have hb : posOf m.nodeIds e.2 = b := by simp [posOf, hk2]
        simp only []
        by_cases hemp : m.edgeIds.isEmpty = true
        · have : m.edgeIds = [] := by simpa using hemp
          simp [this, attrOf?]
        · simp only [hemp, Bool.false_eq_true, if_false]
          have hz := attr_of_zip (fun x => decide (x = (a, b)) || (!m.directed && decide (x = (b, a)))) idx es
            (by simp [hidxdef, hel]) name
          rw [hz]
          have hfi : idx.findIdx? (fun x => decide (x = (a, b)) || (!m.directed && decide (x = (b, a)))) =
              m.edgeIds.findIdx? (fun x => sameEdge m.directed x e) := by
            simp only [hidxdef, findIdx?_map']
            apply findIdx?_congr
            intro x hx
            have hend := h.endpoints x hx
            have e1 : (posOf m.nodeIds x.1 = a ↔ x.1 = e.1) := by
              rw [← ha]; exact ⟨posOf_inj _ _ _ hend.1 hin1, fun h => by rw [h]⟩
            have e2 : (posOf m.nodeIds x.2 = b ↔ x.2 = e.2) := by
              rw [← hb]; exact ⟨posOf_inj _ _ _ hend.2 hin2, fun h => by rw [h]⟩
            have e3 : (posOf m.nodeIds x.1 = b ↔ x.1 = e.2) := by
              rw [← hb]; exact ⟨posOf_inj _ _ _ hend.1 hin2, fun h => by rw [h]⟩
            have e4 : (posOf m.nodeIds x.2 = a ↔ x.2 = e.1) := by
              rw [← ha]; exact ⟨posOf_inj _ _ _ hend.2 hin1, fun h => by rw [h]⟩
            obtain ⟨x1, x2⟩ := x
            obtain ⟨e1', e2'⟩ := e
            simp only [sameEdge, Prod.mk.injEq] at *
            simp only [e1, e2, e3, e4]
          rw [hfi]
          cases hk : m.edgeIds.findIdx? (fun x => sameEdge m.directed x e) with
          | none => rfl
          | some k => exact helook k (findIdx?_lt _ _ k hk) name

end Geff.Backends
