import sys, json, traceback
sys.path.insert(0, "/verif")
from harness import common
common.setup_impl()
from harness.corr import C03 as H
import geff
M = {"directed": True, "id_dtype": "int64", "node_ids": ["2", "2"], "edge_ids": [], "axes": None, "node_props": {"n0": {"dtype": "uint64", "varlen": False, "rows": [[[], [["i", "18446744073709551615"]]], [[], [["i", "0"]]]], "elem_shape": [], "missing": [True, False]}}, "edge_props": {}}
m = H.dec_mem(M)
try:
    g = geff.construct(**m, backend="rustworkx")
    print(g.attrs["to_rx_id_map"], g.nodes())
    print(H.obs_rx(g, {v: k for k, v in g.attrs["to_rx_id_map"].items()}))
except Exception: traceback.print_exc()
