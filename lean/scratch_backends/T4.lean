import GeffProofs.Dicts
namespace Geff.Dicts
open Geff.Np

/-- the values of one property all have shape tag `sh` (`none` = scalar) and leaves of class `K`;
`some []` (a 0-d array) is not a list -/
def RegularVals (K : LeafClass) (sh : Option (List Nat)) (vals : List PyVal) : Prop :=
  sh ≠ some [] ∧ ∀ x ∈ vals, pyShape x = sh ∧ ∀ v ∈ pyLeaves x, K.holds v = true

theorem rowToPy_pyRow (x : PyVal) (h : pyShape x ≠ some []) : rowToPy false (pyRow x) = x := by
  cases x with
  | sc v => rfl
  | arr sh fl =>
    cases sh with
    | nil => exact absurd rfl h
    | cons a s => rfl

theorem rowToPy_true (sh : List Nat) (fl : List Val) : rowToPy true (sh, fl) = .arr sh fl := by
  unfold rowToPy
  split
  · rename_i heq; cases heq; rfl
  · rename_i heq; cases heq; rfl

theorem castRow_id (d : Dtype) (r : Row) (h : ∀ v ∈ r.2, castTo d v = .ok v) : castRow d r = .ok r := by
  obtain ⟨sh, fl⟩ := r
  simp only [castRow, mapE_ok_id (castTo d) fl h]

theorem regularArr_uniform (K : LeafClass) (vals : List PyVal)
    (h : ∀ x ∈ vals, ∀ v ∈ pyLeaves x, K.holds v = true) :
    ∃ d, regularArr vals = .ok (d, false, vals.map pyRow) := by
  have hleaves : ∀ v ∈ vals.flatMap pyLeaves, K.holds v = true := by
    intro v hv'
    obtain ⟨y, hy, hvy⟩ := List.mem_flatMap.1 hv'
    exact h y hy v hvy
  obtain ⟨d, hd, hc⟩ := infer_uniform K _ hleaves
  refine ⟨d, ?_⟩
  have hrows : mapE (fun y => castRow d (pyRow y)) vals = .ok (vals.map pyRow) := by
    apply mapE_ok_map
    intro y hy
    apply castRow_id
    intro v hv'
    apply hc
    apply List.mem_flatMap.2
    refine ⟨y, hy, ?_⟩
    cases y <;> simpa [pyRow, pyLeaves] using hv'
  unfold regularArr
  rw [hd]
  simp only [hrows]

theorem valuesToArr_regular (K : LeafClass) (sh : Option (List Nat)) (vals : List PyVal)
    (h : RegularVals K sh vals) : ∃ d, valuesToArr vals = .ok (d, false, vals.map pyRow) := by
  cases hv : vals with
  | nil => exact ⟨.f64, rfl⟩
  | cons x t =>
    rw [← hv]
    have hall : vals.all (fun y => pyShape y = pyShape x) = true := by
      simp only [List.all_eq_true, decide_eq_true_eq]
      intro y hy
      rw [(h.2 y hy).1, (h.2 x (by simp [hv])).1]
    obtain ⟨d, hd⟩ := regularArr_uniform K vals (fun y hy => (h.2 y hy).2)
    refine ⟨d, ?_⟩
    rw [← hd]
    conv => lhs; unfold valuesToArr
    rw [hv] at hall ⊢
    simp only [hall, if_true]

end Geff.Dicts
