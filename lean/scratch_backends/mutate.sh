#!/bin/bash
# usage: mutate.sh <name> <file> <python-expr old> <python-expr new>
WT=/tmp/wt-backends
name=$1; file=$2; old=$3; new=$4
cd $WT
/venv/bin/python - "$file" "$old" "$new" <<'PY'
import sys
f, old, new = sys.argv[1:4]
s = open(f).read()
assert s.count(old) >= 1, "pattern not found"
open(f, "w").write(s.replace(old, new, 1))
PY
if [ $? -ne 0 ]; then echo "MUTATION $name: pattern not found"; exit 1; fi
cd /verif
out=$(GEFF_REPO=$WT ./check C03 --tier quick 2>&1)
echo "=== MUTATION $name: exit=$?"
echo "$out" | grep -E "failing input|no longer checks|^VIOLATION|^C03 quick" | cut -c1-200 | head -8
cd $WT && git checkout -q -- "$file"
