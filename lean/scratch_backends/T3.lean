import GeffModel.Backends
namespace Geff.Dicts
open Geff.Np

/-- the classes of leaves a property may consist of (the documented domain: one kind per
property; integers must fit one 64-bit type together) -/
inductive LeafClass where
  | bool | int64 | uint64 | float | str
deriving DecidableEq, Repr

def LeafClass.holds : LeafClass → Val → Bool
  | .bool, .b _ => true
  | .int64, .i v => decide (-two63 ≤ v ∧ v < two63)
  | .uint64, .i v => decide (0 ≤ v ∧ v < two64)
  | .float, .f _ => true
  | .str, .s _ => true
  | _, _ => false

theorem promote_self (d : Dtype) : promote d d = d := by simp [promote]

theorem foldl_promote_const (d : Dtype) (l : List Dtype) (h : ∀ x ∈ l, x = d) : l.foldl promote d = d := by
  induction l with
  | nil => rfl
  | cons a t ih =>
    have ha : a = d := h a (by simp)
    subst ha
    simp only [List.foldl_cons, promote_self]
    exact ih (fun x hx => h x (by simp [hx]))

theorem joinAll_const (d : Dtype) (l : List Dtype) (hne : l ≠ []) (h : ∀ x ∈ l, x = d) : joinAll l = d := by
  cases l with
  | nil => exact absurd rfl hne
  | cons a t =>
    have ha : a = d := h a (by simp)
    subst ha
    exact foldl_promote_const a t (fun x hx => h x (by simp [hx]))

theorem foldl_promote_int (a : Dtype) (l : List Dtype) (ha : a = .i64 ∨ a = .u64 ∨ a = .f64)
    (h : ∀ x ∈ l, x = .i64 ∨ x = .u64) :
    l.foldl promote a = .i64 ∨ l.foldl promote a = .u64 ∨ l.foldl promote a = .f64 := by
  induction l generalizing a with
  | nil => simpa using ha
  | cons x t ih =>
    simp only [List.foldl_cons]
    apply ih
    · have hx := h x (by simp)
      rcases ha with rfl | rfl | rfl <;> rcases hx with rfl | rfl <;> decide
    · intro y hy; exact h y (by simp [hy])

theorem joinAll_int (l : List Dtype) (h : ∀ x ∈ l, x = .i64 ∨ x = .u64) :
    joinAll l = .i64 ∨ joinAll l = .u64 ∨ joinAll l = .f64 := by
  cases l with
  | nil => right; right; rfl
  | cons a t =>
    apply foldl_promote_int
    · rcases h a (by simp) with h | h <;> simp [h]
    · intro y hy; exact h y (by simp [hy])

theorem exactIntDtype_nil (d : Dtype) : exactIntDtype [] d = .ok d := by
  simp [exactIntDtype]

/-- numpy's inference (+ the exact-integer repair) on leaves of one class: a dtype is found and
every leaf is stored unchanged -/
theorem infer_uniform (K : LeafClass) (leaves : List Val) (h : ∀ v ∈ leaves, K.holds v = true) :
    ∃ d, exactIntDtype leaves (joinAll (leaves.map discover)) = .ok d ∧ ∀ v ∈ leaves, castTo d v = .ok v := by
  by_cases hne : leaves = []
  · subst hne; exact ⟨_, exactIntDtype_nil _, by simp⟩
  have hne' : leaves.map discover ≠ [] := by simpa using hne
  cases K with
  | bool =>
    have hd : ∀ x ∈ leaves.map discover, x = Dtype.bool := by
      intro x hx
      obtain ⟨v, hv, rfl⟩ := List.mem_map.1 hx
      have := h v hv
      cases v <;> simp_all [LeafClass.holds, discover]
    refine ⟨.bool, ?_, ?_⟩
    · rw [joinAll_const _ _ hne' hd]; simp [exactIntDtype]
    · intro v hv; have := h v hv; cases v <;> simp_all [LeafClass.holds, castTo]
  | str =>
    have hd : ∀ x ∈ leaves.map discover, x = Dtype.str := by
      intro x hx
      obtain ⟨v, hv, rfl⟩ := List.mem_map.1 hx
      have := h v hv
      cases v <;> simp_all [LeafClass.holds, discover]
    refine ⟨.str, ?_, ?_⟩
    · rw [joinAll_const _ _ hne' hd]; simp [exactIntDtype]
    · intro v hv; have := h v hv; cases v <;> simp_all [LeafClass.holds, castTo]
  | float =>
    have hd : ∀ x ∈ leaves.map discover, x = Dtype.f64 := by
      intro x hx
      obtain ⟨v, hv, rfl⟩ := List.mem_map.1 hx
      have := h v hv
      cases v <;> simp_all [LeafClass.holds, discover]
    refine ⟨.f64, ?_, ?_⟩
    · rw [joinAll_const _ _ hne' hd]
      have : leaves.all isInt = false := by
        cases leaves with
        | nil => exact absurd rfl hne
        | cons v t =>
          have := h v (by simp)
          cases v <;> simp_all [LeafClass.holds, isInt]
      simp [exactIntDtype, this]
    · intro v hv; have := h v hv; cases v <;> simp_all [LeafClass.holds, castTo]
  | int64 =>
    have hd : ∀ x ∈ leaves.map discover, x = Dtype.i64 := by
      intro x hx
      obtain ⟨v, hv, rfl⟩ := List.mem_map.1 hx
      have := h v hv
      cases v <;> simp_all [LeafClass.holds, discover]
    refine ⟨.i64, ?_, ?_⟩
    · rw [joinAll_const _ _ hne' hd]; simp [exactIntDtype]
    · intro v hv; have := h v hv; cases v <;> simp_all [LeafClass.holds, castTo]
  | uint64 =>
    have hint : ∀ v ∈ leaves, ∃ x, v = Val.i x ∧ 0 ≤ x ∧ x < two64 := by
      intro v hv; have := h v hv
      cases v <;> simp_all [LeafClass.holds]
    have hd : ∀ x ∈ leaves.map discover, x = Dtype.i64 ∨ x = Dtype.u64 := by
      intro x hx
      obtain ⟨v, hv, rfl⟩ := List.mem_map.1 hx
      obtain ⟨y, rfl, h0, h1⟩ := hint v hv
      simp only [discover]
      by_cases hy : -two63 ≤ y ∧ y < two63
      · simp [hy]
      · have : two63 ≤ y := by
          simp only [two63] at hy ⊢
          omega
        simp [hy, this, h1]
    have hcast : ∀ d, (d = Dtype.i64 ∨ d = Dtype.u64) → ∀ v ∈ leaves, castTo d v = .ok v := by
      intro d hd' v hv
      obtain ⟨y, rfl, _, _⟩ := hint v hv
      rcases hd' with rfl | rfl <;> simp [castTo]
    have hallint : leaves.all isInt = true := by
      simp only [List.all_eq_true]
      intro v hv; obtain ⟨y, rfl, _, _⟩ := hint v hv; rfl
    have hallu : leaves.all inU64 = true := by
      simp only [List.all_eq_true]
      intro v hv; obtain ⟨y, rfl, h0, h1⟩ := hint v hv; simp [inU64, h0, h1]
    rcases joinAll_int _ hd with hj | hj | hj
    · exact ⟨.i64, by rw [hj]; simp [exactIntDtype], hcast _ (Or.inl rfl)⟩
    · exact ⟨.u64, by rw [hj]; simp [exactIntDtype, hne, hallint, hallu], hcast _ (Or.inr rfl)⟩
    · exact ⟨.u64, by rw [hj]; simp [exactIntDtype, hne, hallint, hallu], hcast _ (Or.inr rfl)⟩

end Geff.Dicts
