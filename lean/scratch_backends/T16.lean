import GeffProps.C03
namespace GeffProps.C03
open Geff.Np Geff.Dicts Geff.Backends

theorem regular_nil (K : LeafClass) : RegularVals K none [] := ⟨by simp, by simp⟩

/-- `exG` lies in the documented domain: the round-trip theorems apply to it -/
example : NxDomain exG where
  nodup := by decide
  idRange := by decide
  endpoints := by decide
  simple := by decide
  nodeProps := by
    intro name
    by_cases h1 : name = "f"
    · subst h1
      refine ⟨.bool, none, by simp, ?_⟩
      intro x hx
      simp only [present, exG, List.filterMap_cons, lookup_cons_ite] at hx
      simp at hx
      rcases hx with rfl | rfl <;> simp [pyShape, pyLeaves, LeafClass.holds]
    · by_cases h2 : name = "p"
      · subst h2
        refine ⟨.uint64, none, by simp, ?_⟩
        intro x hx
        simp only [present, exG, List.filterMap_cons, lookup_cons_ite] at hx
        simp at hx
        rcases hx with rfl | rfl <;> simp [pyShape, pyLeaves, LeafClass.holds, two64]
      · by_cases h3 : name = "v"
        · subst h3
          refine ⟨.float, some [2], by simp, ?_⟩
          intro x hx
          simp only [present, exG, List.filterMap_cons, lookup_cons_ite] at hx
          simp at hx
          subst hx
          simp [pyShape, pyLeaves, LeafClass.holds]
        · refine ⟨.bool, none, ?_⟩
          have : present exG.nodes name = [] := by
            simp [present, exG, lookup_cons_ite, h1, h2, h3]
          rw [this]; exact regular_nil _
  edgeProps := by
    intro name
    by_cases h1 : name = "w"
    · subst h1
      refine ⟨.str, none, by simp, ?_⟩
      intro x hx
      simp only [present, exG, List.filterMap_cons, lookup_cons_ite] at hx
      simp at hx
      subst hx
      simp [pyShape, pyLeaves, LeafClass.holds]
    · refine ⟨.bool, none, ?_⟩
      have : present exG.edges name = [] := by
        simp [present, exG, lookup_cons_ite, h1]
      rw [this]; exact regular_nil _

end GeffProps.C03
