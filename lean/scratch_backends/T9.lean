import GeffProofs.Backends
namespace Geff.Backends
open Geff.Np Geff.Dicts

theorem nodeProps_fold (ids : List Int) (props : List (String × Col)) (g : NxGraph) (ds0 : List Attrs)
    (hg : g.nodes = ids.zip ds0) (hnd : ids.Nodup) (hlen : ds0.length = ids.length)
    (hwf : ∀ p ∈ props, p.2.WF ids.length) :
    ∃ ds, props.foldlM (fillStep ids.length) ds0 = .ok ds ∧ ds.length = ids.length ∧
      props.foldlM (fun g (p : String × Col) => setNodePropertyValues g ids p.1 p.2) g =
        .ok { g with nodes := ids.zip ds } := by
  induction props generalizing g ds0 with
  | nil => exact ⟨ds0, rfl, hlen, by simp [← hg, pure, Except.pure]⟩
  | cons p ps ih =>
    have hwfp := hwf p (by simp)
    have h1 := setNodePropertyValues_zip g ids ds0 p.1 p.2 hg hnd hlen hwfp
    obtain ⟨ds, hds, hl, hfold⟩ := ih { g with nodes := ids.zip (setColumn p.1 ds0 ((List.range ids.length).map p.2.entry)) }
      (setColumn p.1 ds0 ((List.range ids.length).map p.2.entry)) rfl
      (by rw [length_setColumn, hlen]) (fun q hq => hwf q (by simp [hq]))
    refine ⟨ds, ?_, hl, ?_⟩
    · simp only [List.foldlM_cons, fillStep, colEntries_wf p.2 _ hwfp, bind, Except.bind]
      exact hds
    · simp only [List.foldlM_cons, h1, bind, Except.bind]
      exact hfold

/-! edges -/

theorem sameEdge_refl (d : Bool) (a : Int × Int) : sameEdge d a a = true := by simp [sameEdge]

theorem hasEdge_of_mem (g : NxGraph) (e : Int × Int) (h : e ∈ g.edges.map (·.1)) : g.hasEdge e = true := by
  obtain ⟨x, hx, rfl⟩ := List.mem_map.1 h
  simp only [NxGraph.hasEdge, List.any_eq_true]
  exact ⟨x, hx, sameEdge_refl _ _⟩

theorem foldl_addEdge (d : Bool) (ns : List (Int × Attrs)) (pre : List ((Int × Int) × Attrs)) (es : List (Int × Int))
    (hend : ∀ e ∈ es, e.1 ∈ ns.map (·.1) ∧ e.2 ∈ ns.map (·.1))
    (hpw : (pre.map (·.1) ++ es).Pairwise (fun a b => sameEdge d a b = false)) :
    es.foldl NxGraph.addEdge ⟨d, ns, pre⟩ = ⟨d, ns, pre ++ es.map (fun e => (e, []))⟩ := by
  induction es generalizing pre with
  | nil => simp
  | cons e t ih =>
    have he := hend e (by simp)
    have hn1 : (⟨d, ns, pre⟩ : NxGraph).hasNode e.1 = true := (hasNode_iff _ _).2 he.1
    have hn2 : (⟨d, ns, pre⟩ : NxGraph).hasNode e.2 = true := (hasNode_iff _ _).2 he.2
    have hno : (⟨d, ns, pre⟩ : NxGraph).hasEdge e = false := by
      simp only [NxGraph.hasEdge, List.any_eq_false]
      intro x hx
      have := List.pairwise_append.1 hpw
      have h3 := this.2.2 x.1 (List.mem_map.2 ⟨x, hx, rfl⟩) e (by simp)
      simp [h3]
    simp only [List.foldl_cons, NxGraph.addEdge, NxGraph.addNode, hn1, hn2, if_true, hno, Bool.false_eq_true, if_false]
    rw [ih (pre ++ [(e, [])]) (fun x hx => hend x (by simp [hx])) (by simpa using hpw)]
    simp

theorem foldlM_setEdge (name : String) (kes : List ((Int × Int) × Option PyVal)) (g : NxGraph)
    (hk : ∀ ke ∈ kes, ke.1 ∈ g.edges.map (·.1)) :
    kes.foldlM (setEdgeStep name) g
      = Except.ok { g with edges := setMany (sameEdge g.directed) name g.edges kes } := by
  induction kes generalizing g with
  | nil => rfl
  | cons ke t ih =>
    obtain ⟨k, e⟩ := ke
    have hk0 := hk (k, e) (by simp)
    cases e with
    | none =>
      simp only [List.foldlM_cons, setEdgeStep, bind, Except.bind]
      rw [ih g (fun q hq => hk q (by simp [hq]))]
      simp [setMany]
    | some v =>
      have hh : g.hasEdge k = true := hasEdge_of_mem g k hk0
      simp only [List.foldlM_cons, setEdgeStep, NxGraph.setEdgeAttr, hh, if_true, bind, Except.bind]
      rw [ih _ (by
        intro q hq
        simp only [setAt_keys]
        exact hk q (by simp [hq]))]
      simp [setMany]

theorem setEdgePropertyValues_zip (g : NxGraph) (ids : List (Int × Int)) (ds : List Attrs) (name : String) (c : Col)
    (hg : g.edges = ids.zip ds) (hpw : ids.Pairwise (fun a b => sameEdge g.directed a b = false))
    (hlen : ds.length = ids.length) (hwf : c.WF ids.length) :
    setEdgePropertyValues g ids name c =
      .ok { g with edges := ids.zip (setColumn name ds ((List.range ids.length).map c.entry)) } := by
  unfold setEdgePropertyValues
  simp only [colEntries_wf c _ hwf]
  rw [foldlM_setEdge]
  · have := setMany_zip (sameEdge g.directed) (sameEdge_refl _) name ids ds
      ((List.range ids.length).map c.entry) [] hpw (by simp) hlen (by simp)
    simp only [List.nil_append] at this
    rw [hg, this]
  · intro ke hke
    rw [hg]
    have := (List.of_mem_zip hke).1
    simp only [List.map_fst_zip (by omega : ids.length ≤ ds.length)]
    exact this

theorem edgeProps_fold (ids : List (Int × Int)) (props : List (String × Col)) (g : NxGraph) (ds0 : List Attrs)
    (hg : g.edges = ids.zip ds0) (hpw : ids.Pairwise (fun a b => sameEdge g.directed a b = false))
    (hlen : ds0.length = ids.length) (hwf : ∀ p ∈ props, p.2.WF ids.length) :
    ∃ ds, props.foldlM (fillStep ids.length) ds0 = .ok ds ∧ ds.length = ids.length ∧
      props.foldlM (fun g (p : String × Col) => setEdgePropertyValues g ids p.1 p.2) g =
        .ok { g with edges := ids.zip ds } := by
  induction props generalizing g ds0 with
  | nil => exact ⟨ds0, rfl, hlen, by simp [← hg, pure, Except.pure]⟩
  | cons p ps ih =>
    have hwfp := hwf p (by simp)
    have h1 := setEdgePropertyValues_zip g ids ds0 p.1 p.2 hg hpw hlen hwfp
    obtain ⟨ds, hds, hl, hfold⟩ := ih { g with edges := ids.zip (setColumn p.1 ds0 ((List.range ids.length).map p.2.entry)) }
      (setColumn p.1 ds0 ((List.range ids.length).map p.2.entry)) rfl hpw
      (by rw [length_setColumn, hlen]) (fun q hq => hwf q (by simp [hq]))
    refine ⟨ds, ?_, hl, ?_⟩
    · simp only [List.foldlM_cons, fillStep, colEntries_wf p.2 _ hwfp, bind, Except.bind]
      exact hds
    · simp only [List.foldlM_cons, h1, bind, Except.bind]
      exact hfold

end Geff.Backends
