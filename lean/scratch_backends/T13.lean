import GeffProofs.Backends
namespace Geff.Backends
open Geff.Np Geff.Dicts Geff.Graph

theorem mem_dedup' {α : Type} [DecidableEq α] (l : List α) (x : α) : x ∈ dedup l ↔ x ∈ l := by
  induction l with
  | nil => simp [dedup]
  | cons a t ih =>
    simp only [dedup, List.mem_cons, List.mem_filter, ih, ne_eq, decide_not, Bool.not_eq_eq_eq_not,
      Bool.not_true, decide_eq_false_iff_not]
    constructor
    · rintro (h | ⟨h, _⟩)
      · exact Or.inl h
      · exact Or.inr h
    · intro h
      by_cases hx : x = a
      · exact Or.inl hx
      · rcases h with h | h
        · exact absurd h hx
        · exact Or.inr ⟨h, hx⟩

theorem nodup_dedup {α : Type} [DecidableEq α] (l : List α) : (dedup l).Nodup := by
  induction l with
  | nil => simp [dedup]
  | cons a t ih =>
    simp only [dedup, List.nodup_cons, List.mem_filter, ne_eq, decide_not, Bool.not_eq_eq_eq_not, Bool.not_true,
      decide_eq_false_iff_not, not_and]
    exact ⟨fun _ h => h trivial, ih.filter _⟩

/-! `any` versions (membership of an edge) -/
theorem any_zip_fst {κ : Type} (p : κ → Bool) (keys : List κ) (ds : List Attrs) (hlen : ds.length = keys.length) :
    (keys.zip ds).any (fun x => p x.1) = keys.any p := by
  induction keys generalizing ds with
  | nil => simp
  | cons a t ih =>
    cases ds with
    | nil => simp at hlen
    | cons d dt => simp [ih dt (by simpa using hlen)]

end Geff.Backends
