import GeffModel.Backends
namespace Geff.Dicts
open Geff.Np

theorem lookup_cons_ite {β : Type} (k' k : String) (v : β) (t : List (String × β)) :
    List.lookup k' ((k, v) :: t) = if k' = k then some v else List.lookup k' t := by
  rw [List.lookup_cons]
  by_cases h : k' = k
  · subst h; simp
  · have hb : (k' == k) = false := by simpa using h
    simp [hb, h]

theorem lookup_set (a : Attrs) (k k' : String) (v : PyVal) :
    (a.set k v).lookup k' = if k' = k then some v else a.lookup k' := by
  induction a with
  | nil => simp [Attrs.set, lookup_cons_ite]
  | cons p t ih =>
    obtain ⟨k0, v0⟩ := p
    simp only [Attrs.set]
    by_cases h0 : k0 = k
    · subst h0
      simp only [if_true, lookup_cons_ite]
      by_cases h : k' = k0 <;> simp [h]
    · simp only [h0, if_false, lookup_cons_ite, ih]
      by_cases h : k' = k
      · subst h
        have : ¬ k' = k0 := fun h' => h0 h'.symm
        simp [this]
      · simp [h]

end Geff.Dicts
