import GeffProofs.Backends
namespace Geff.Dicts
open Geff.Np

theorem lookup_mem {β : Type} (l : List (String × β)) (k : String) (v : β) (h : l.lookup k = some v) : (k, v) ∈ l := by
  induction l with
  | nil => simp at h
  | cons p t ih =>
    obtain ⟨k', v'⟩ := p
    rw [lookup_cons_ite] at h
    by_cases hk : k = k'
    · subst hk; simp at h; subst h; simp
    · simp only [hk, if_false] at h
      exact List.mem_cons_of_mem _ (ih h)

theorem lookup_none_of_not_mem {β : Type} (l : List (String × β)) (k : String) (h : k ∉ l.map (·.1)) : l.lookup k = none := by
  induction l with
  | nil => rfl
  | cons p t ih =>
    obtain ⟨k', v'⟩ := p
    rw [lookup_cons_ite]
    have hk : k ≠ k' := fun e => h (by simp [e])
    simp only [hk, if_false]
    exact ih (fun hm => h (by simp only [List.map_cons, List.mem_cons]; exact Or.inr hm))

theorem lookup_some_of_mem {β : Type} (l : List (String × β)) (k : String) (h : k ∈ l.map (·.1)) : ∃ v, l.lookup k = some v := by
  cases hl : l.lookup k with
  | some v => exact ⟨v, rfl⟩
  | none =>
    exfalso
    rw [List.lookup_eq_none_iff] at hl
    obtain ⟨p, hp, rfl⟩ := List.mem_map.1 h
    have := hl p hp
    simp at this

/-- the property list `dict_props_to_arr` returns: one entry per name, each the result of `dictPropToArr` -/
theorem dictPropsToArr_ok {ι : Type} (data : List (ι × Attrs)) (names : List String)
    (h : ∀ n ∈ names, ∃ c, dictPropToArr data n = .ok c) :
    ∃ props, dictPropsToArr data names = .ok props ∧ props.map (·.1) = names ∧
      ∀ p ∈ props, dictPropToArr data p.1 = .ok p.2 := by
  unfold dictPropsToArr
  induction names with
  | nil => exact ⟨[], rfl, rfl, by simp⟩
  | cons n t ih =>
    obtain ⟨c, hc⟩ := h n (by simp)
    obtain ⟨ps, hps, hnames, hall⟩ := ih (fun x hx => h x (by simp [hx]))
    refine ⟨(n, c) :: ps, ?_, by simp [hnames], ?_⟩
    · simp only [mapE, namedCol, hc, hps]
    · intro p hp
      rcases List.mem_cons.1 hp with rfl | hp
      · exact hc
      · exact hall p hp

/-- **dict layer**: for property names that are regular on `data` and cover every key that occurs,
the property list denotes exactly the given dicts -/
theorem dictPropsToArr_spec {ι : Type} (data : List (ι × Attrs)) (names : List String)
    (hreg : ∀ n ∈ names, ∃ K sh, RegularVals K sh (present data n))
    (hcover : ∀ d ∈ data, ∀ n v, d.2.lookup n = some v → n ∈ names) :
    ∃ props, dictPropsToArr data names = .ok props ∧ props.map (·.1) = names ∧
      (∀ p ∈ props, p.2.WF data.length) ∧
      ∀ k (hk : k < data.length) name, memAttr props k name = (data[k]).2.lookup name := by
  have hok : ∀ n ∈ names, ∃ c, dictPropToArr data n = .ok c := by
    intro n hn
    obtain ⟨K, sh, hr⟩ := hreg n hn
    obtain ⟨c, hc, _⟩ := dictPropToArr_regular K sh data n hr
    exact ⟨c, hc⟩
  obtain ⟨props, hprops, hnames, hall⟩ := dictPropsToArr_ok data names hok
  have hfacts : ∀ p ∈ props, p.2.WF data.length ∧ ∀ i (hi : i < data.length), p.2.entry i = (data[i]).2.lookup p.1 := by
    intro p hp
    have hn : p.1 ∈ names := by rw [← hnames]; exact List.mem_map.2 ⟨p, hp, rfl⟩
    obtain ⟨K, sh, hr⟩ := hreg p.1 hn
    obtain ⟨c, hc, hwf, hent⟩ := dictPropToArr_regular K sh data p.1 hr
    have : c = p.2 := by
      have h2 := hall p hp
      rw [hc] at h2
      exact Except.ok.inj h2
    subst this
    exact ⟨hwf, hent⟩
  refine ⟨props, hprops, hnames, fun p hp => (hfacts p hp).1, ?_⟩
  intro k hk name
  unfold memAttr
  by_cases hn : name ∈ names
  · obtain ⟨c, hc⟩ := lookup_some_of_mem props name (by rw [hnames]; exact hn)
    rw [hc]
    exact (hfacts (name, c) (lookup_mem props name c hc)).2 k hk
  · rw [lookup_none_of_not_mem props name (by rw [hnames]; exact hn)]
    cases hl : (data[k]).2.lookup name with
    | none => rfl
    | some v => exact absurd (hcover data[k] (List.getElem_mem hk) name v hl) hn

end Geff.Dicts
