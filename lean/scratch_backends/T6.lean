import GeffProofs.Dicts
namespace Geff.Backends
open Geff.Np Geff.Dicts

theorem colEntries_wf (c : Col) (n : Nat) (h : c.WF n) :
    colEntries c n = .ok ((List.range n).map c.entry) := by
  unfold colEntries
  apply mapE_ok_map
  intro i hi
  have hi' : i < n := List.mem_range.1 hi
  have hr : i < c.rows.length := by rw [h.1]; exact hi'
  simp only [Col.entry, List.getElem?_eq_getElem hr]
  cases hm : c.missing with
  | none => rfl
  | some ms =>
    have hl : i < ms.length := by rw [h.2 ms hm]; exact hi'
    simp only [List.getElem?_eq_getElem hl]
    cases ms[i] <;> simp

theorem length_setColumn (name : String) (ds : List Attrs) (es : List (Option PyVal)) :
    (setColumn name ds es).length = ds.length := by
  induction ds generalizing es with
  | nil => cases es with
    | nil => rfl
    | cons e t => cases e <;> rfl
  | cons d t ih =>
    cases es with
    | nil => rfl
    | cons e t' => cases e <;> simp [setColumn, ih]

/-- attribute `name` of the `k`-th dict -/
def look (ds : List Attrs) (k : Nat) (name : String) : Option PyVal :=
  match ds[k]? with
  | none => none
  | some d => d.lookup name

theorem look_setColumn (name : String) (ds : List Attrs) (es : List (Option PyVal)) (k : Nat)
    (name' : String) (hk : k < ds.length) (hlen : es.length = ds.length) :
    look (setColumn name ds es) k name' =
      if name' = name then (match es[k]? with
        | some (some v) => some v
        | _ => look ds k name') else look ds k name' := by
  induction ds generalizing es k with
  | nil => simp at hk
  | cons d t ih =>
    cases es with
    | nil => simp at hlen
    | cons e t' =>
      have hlen' : t'.length = t.length := by simpa using hlen
      cases k with
      | zero =>
        cases e with
        | none => simp [setColumn, look]
        | some v => simp [setColumn, look, lookup_set]
      | succ k =>
        have hk' : k < t.length := by simpa using hk
        have := ih t' k hk' hlen'
        cases e <;> simpa [setColumn, look] using this

theorem fillDicts_aux (n : Nat) (props : List (String × Col)) (ds0 : List Attrs) (hlen : ds0.length = n)
    (hnd : (props.map (·.1)).Nodup) (hwf : ∀ p ∈ props, p.2.WF n) :
    ∃ ds, props.foldlM (fun ds (p : String × Col) => do
        let es ← colEntries p.2 n
        return setColumn p.1 ds es) ds0 = .ok ds ∧ ds.length = n ∧
      ∀ k, k < n → ∀ name, look ds k name =
        match props.lookup name with
        | some c => (match c.entry k with
          | some v => some v
          | none => look ds0 k name)
        | none => look ds0 k name := by
  induction props generalizing ds0 with
  | nil => exact ⟨ds0, rfl, hlen, fun k _ name => rfl⟩
  | cons p ps ih =>
    obtain ⟨pn, pc⟩ := p
    have hwfp : pc.WF n := hwf (pn, pc) (by simp)
    have hnd' : (ps.map (·.1)).Nodup := (List.nodup_cons.1 (by simpa using hnd)).2
    have hnotin : pn ∉ ps.map (·.1) := (List.nodup_cons.1 (by simpa using hnd)).1
    have hlen1 : (setColumn pn ds0 ((List.range n).map pc.entry)).length = n := by
      rw [length_setColumn, hlen]
    obtain ⟨ds, hds, hl, hlook⟩ := ih (setColumn pn ds0 ((List.range n).map pc.entry)) hlen1 hnd'
      (fun q hq => hwf q (by simp [hq]))
    refine ⟨ds, ?_, hl, ?_⟩
    · simp only [List.foldlM_cons, colEntries_wf pc n hwfp, bind, Except.bind, pure, Except.pure]
      exact hds
    · intro k hk name
      rw [hlook k hk name]
      have hes : ((List.range n).map pc.entry)[k]? = some (pc.entry k) := by
        simp [hk]
      have h1 := look_setColumn pn ds0 ((List.range n).map pc.entry) k name (by rw [hlen]; exact hk)
        (by simp [hlen])
      rw [hes] at h1
      by_cases hname : name = pn
      · subst hname
        have hps : ps.lookup name = none := by
          rw [List.lookup_eq_none_iff]
          intro q hq
          simp only [bne_iff_ne, ne_eq]
          intro heq
          exact hnotin (List.mem_map.2 ⟨q, hq, heq.symm⟩)
        rw [hps, lookup_cons_ite]
        simp only [if_true] at h1 ⊢
        rw [h1]
        cases pc.entry k <;> rfl
      · rw [lookup_cons_ite]
        simp only [hname, if_false] at h1 ⊢
        rw [h1]

end Geff.Backends
