import GeffProofs.Dicts
namespace Geff.Dicts
open Geff.Np

/-- numpy dtype of a (non-empty) list of leaves of one class -/
def LeafClass.dtype : LeafClass → Dtype
  | .bool => .bool | .int64 => .i64 | .uint64 => .u64 | .float => .f64 | .str => .str

/-- the values of a ragged (variable-length) list property: lists of one rank `r ≥ 1` with leaves
of one class `K` (not uint64: known finding `C03:ragged-int-values-ge-2^63`), each list having the
class's numpy dtype on its own — i.e. non-empty, except that an empty list is a float64 array —
and, for strings, the same maximal string length `w` (otherwise the pinned `_get_common_type_dims`
depends on the order of the elements: defect D8 of property C11) -/
def RaggedVals (K : LeafClass) (r w : Nat) (vals : List PyVal) : Prop :=
  K ≠ .uint64 ∧ 1 ≤ r ∧ ∀ x ∈ vals, ∃ sh fl, x = .arr sh fl ∧ sh.length = r ∧
    (∀ v ∈ fl, K.holds v = true) ∧ (fl ≠ [] ∨ K = .float) ∧ strWidth x = w

theorem elemDtype_of_class (K : LeafClass) (hK : K ≠ .uint64) (sh : List Nat) (fl : List Val)
    (h : ∀ v ∈ fl, K.holds v = true) (hne : fl ≠ [] ∨ K = .float) :
    elemDtype (.arr sh fl) = K.dtype := by
  unfold elemDtype
  simp only [pyLeaves]
  by_cases hfl : fl = []
  · subst hfl
    rcases hne with h | h
    · exact absurd rfl h
    · subst h; rfl
  · apply joinAll_const _ _ (by simpa using hfl)
    intro x hx
    obtain ⟨v, hv, rfl⟩ := List.mem_map.1 hx
    have := h v hv
    cases K <;> cases v <;> simp_all [LeafClass.holds, discover, LeafClass.dtype]

theorem castTo_of_class (K : LeafClass) (v : Val) (h : K.holds v = true) : castTo K.dtype v = .ok v := by
  cases K <;> cases v <;> simp_all [LeafClass.holds, castTo, LeafClass.dtype]

theorem canCast_self (d : Dtype) : canCast d d = true := by simp [canCast]

theorem commonTypeDims_uniform (d : Dtype) (w r : Nat) (x : PyVal) (xs : List PyVal)
    (h : ∀ y ∈ x :: xs, elemDtype y = d ∧ strWidth y = w ∧ (pyRow y).1.length = r) :
    commonTypeDims (x :: xs) = .ok (d, w, r) := by
  have hx := h x (by simp)
  simp only [commonTypeDims, hx.1, hx.2.1, hx.2.2]
  have hxs : ∀ y ∈ xs, elemDtype y = d ∧ strWidth y = w ∧ (pyRow y).1.length = r :=
    fun y hy => h y (by simp [hy])
  clear h hx
  induction xs with
  | nil => rfl
  | cons y t ih =>
    have hy := hxs y (by simp)
    simp only [List.foldlM_cons, hy.1, hy.2.1, hy.2.2, canCast_self, promote_self, Nat.max_self, Nat.le_refl,
      implies_true, and_self, if_true, bind, Except.bind]
    exact ih (fun z hz => hxs z (by simp [hz]))

theorem constructVarLenProps_ragged (K : LeafClass) (r w : Nat) (vals : List PyVal) (hne : vals ≠ [])
    (h : RaggedVals K r w vals) :
    constructVarLenProps vals = .ok (K.dtype, vals.map pyRow) := by
  obtain ⟨hK, hr, hall⟩ := h
  cases hv : vals with
  | nil => exact absurd hv hne
  | cons x xs =>
    have hfacts : ∀ y ∈ x :: xs, elemDtype y = K.dtype ∧ strWidth y = w ∧ (pyRow y).1.length = r := by
      intro y hy
      obtain ⟨sh, fl, rfl, hlen, hleaves, hne', hw⟩ := hall y (by rw [hv]; exact hy)
      exact ⟨elemDtype_of_class K hK sh fl hleaves hne', hw, by simpa [pyRow] using hlen⟩
    have hctd := commonTypeDims_uniform K.dtype w r x xs hfacts
    have hd : K.dtype ≠ .u64 := by cases K <;> simp_all [LeafClass.dtype]
    have hrows : mapE (varLenRow K.dtype r) (x :: xs) = .ok ((x :: xs).map pyRow) := by
      apply mapE_ok_map
      intro y hy
      obtain ⟨sh, fl, rfl, hlen, hleaves, _, _⟩ := hall y (by rw [hv]; exact hy)
      have hc : castRow K.dtype (sh, fl) = .ok (sh, fl) :=
        castRow_id _ _ (fun v hv' => castTo_of_class K v (hleaves v hv'))
      simp only [varLenRow, pyRow, hc, hlen, Nat.sub_self, List.replicate_zero, List.nil_append]
    simp only [constructVarLenProps, hctd, hd, if_false, hrows]

end Geff.Dicts
