import sys, os, json, random, time, collections
sys.path.insert(0, "/verif")
from harness import common
common.setup_impl()
from harness.corr import C03 as H
rng = random.Random(1)
cnt = collections.Counter(); ex = {}
t=time.time(); H.sg_warm(); print('warm', time.time()-t)
# sg round trips
cases = [{"S": H.gen_sg(rng, H.SG_SCHEMAS[k % len(H.SG_SCHEMAS)]), "fmt": 2 + k % 2} for k in range(80)]
t = time.time(); res = common.pmap(H.impl_sg_roundtrip, cases, chunksize=4); print("sg time", time.time() - t)
for c, r in zip(cases, res):
    G = H.sg_as_graph(c["S"])
    if r["write"] != "ok":
        key = ("sgwrite", r["write"]["exc"], r["write"]["msg"][:80]); cnt[key] += 1; ex.setdefault(key, c); continue
    d = H.diff_graphs(G, r["built"])
    if d: key = ("sg-built", d[0][0]); cnt[key] += 1; ex.setdefault(key, (c, d[0]))
    for rd, o in r["reads"].items():
        if "exc" in o:
            key = ("sgread", rd, o["exc"], o["msg"][:80]); cnt[key] += 1; ex.setdefault(key, c); continue
        d = H.diff_graphs(G, o)
        if d: key = ("sg-diff", rd, d[0][0], d[0][1][:80]); cnt[key] += 1; ex.setdefault(key, (c, d[0]))
# construct
cases = [{"M": H.gen_mem(rng), "backends": ["nx", "rx"]} for _ in range(600)] + [{"M": H.gen_mem(rng, sg_domain=True), "backends": ["nx", "rx", "sg"]} for _ in range(60)]
t = time.time(); res = common.pmap(H.impl_construct, cases, chunksize=8); print("construct time", time.time() - t)
for c, r in zip(cases, res):
    G = H.mem_as_graph(c["M"])
    for b, o in r["graphs"].items():
        if "exc" in o:
            key = ("construct-exc", b, o["exc"], o["msg"][:80]); cnt[key] += 1; ex.setdefault(key, c); continue
        d = H.diff_graphs(G, o)
        if d: key = ("construct-diff", b, d[0][0], d[0][1][:80]); cnt[key] += 1; ex.setdefault(key, (c, d[0]))
        a = r["adapters"].get(b)
        if "exc" in a:
            key = ("adapter-exc", b, a["exc"], a["msg"][:80]); cnt[key] += 1; ex.setdefault(key, c); continue
        d = H.diff_graphs(G, a)
        if d: key = ("adapter-diff", b, d[0][0], d[0][1][:80]); cnt[key] += 1; ex.setdefault(key, (c, d[0]))
for k, v in sorted(cnt.items(), key=lambda kv: -kv[1]):
    print(v, k)
json.dump({str(k): v for k, v in ex.items()}, open("explore2_out.json", "w"), indent=1, default=str)
