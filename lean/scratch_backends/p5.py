import numpy as np, spatial_graph as sg
for directed in (True, False):
    g = sg.create_graph(ndims=2, node_dtype="uint64", node_attr_dtypes={"position":"float64[2]"}, edge_attr_dtypes={}, position_attr="position", directed=directed)
    g.add_nodes(np.array([5, 2**63, 101, 2],np.uint64), position=np.array([[1.,4.],[2.,5.],[3.,6.],[0.,0.]]))
    g.add_edges(np.array([[2,2**63],[101,5]],np.uint64))
    print(directed, g.edges, g.num_edges() if hasattr(g,'num_edges') else None)
    g = sg.create_graph(ndims=2, node_dtype="uint64", node_attr_dtypes={"position":"float64[2]"}, edge_attr_dtypes={}, position_attr="position", directed=directed)
    g.add_nodes(np.array([5, 7, 101, 2],np.uint64), position=np.array([[1.,4.],[2.,5.],[3.,6.],[0.,0.]]))
    g.add_edges(np.array([[2,7],[101,5]],np.uint64))
    print(directed, g.edges)
    g = sg.create_graph(ndims=2, node_dtype="uint64", node_attr_dtypes={"position":"float64[2]"}, edge_attr_dtypes={}, position_attr="position", directed=directed)
    g.add_nodes(np.array([5, 7, 101, 2],np.uint64), position=np.array([[1.,4.],[2.,5.],[3.,np.nan],[0.,0.]]))
    g.add_edges(np.array([[2,7],[101,5]],np.uint64))
    print("nan", directed, g.edges, g.nodes, g.roi)
