import GeffModel.MetaHeap
namespace Geff.MetaHeap

/-- every reference held by the object is at least `n` -/
def RefsGE (n : Nat) : Obj → Prop
  | .axis .. => True
  | .propsDict _ => True
  | .axesList items => ∀ x ∈ items, n ≤ x
  | .geffMeta axes np ep _ => (∀ l, axes = some l → n ≤ l) ∧ n ≤ np ∧ n ≤ ep

/-- objects at addresses `≥ n` (allocated by the writer) refer only to such objects -/
structure Inv (n : Nat) (h : Heap) : Prop where
  le : n ≤ h.length
  fresh : ∀ a o, n ≤ a → h[a]? = some o → RefsGE n o

/-- the objects that existed before (addresses `< n`) are untouched -/
def Keeps (n : Nat) (h h' : Heap) : Prop := ∀ a, a < n → h'[a]? = h[a]?

theorem Keeps.refl (n : Nat) (h : Heap) : Keeps n h h := fun _ _ => rfl
theorem Keeps.trans {n : Nat} {h1 h2 h3 : Heap} (a : Keeps n h1 h2) (b : Keeps n h2 h3) :
    Keeps n h1 h3 := fun x hx => (b x hx).trans (a x hx)

theorem alloc_spec {n : Nat} {h : Heap} (o : Obj) (hi : Inv n h) (ho : RefsGE n o) :
    Inv n (alloc h o).1 ∧ Keeps n h (alloc h o).1 ∧ n ≤ (alloc h o).2 ∧
      (alloc h o).1[(alloc h o).2]? = some o := by
  simp only [alloc]
  refine ⟨⟨by simp; have := hi.le; omega, ?_⟩, ?_, hi.le, by simp⟩
  · intro a o' ha hget
    by_cases hlt : a < h.length
    · rw [List.getElem?_append_left hlt] at hget
      exact hi.fresh a o' ha hget
    · have : a = h.length := by
        have hsome : a < (h ++ [o]).length := by
          rcases Nat.lt_or_ge a (h ++ [o]).length with h' | h'
          · exact h'
          · rw [List.getElem?_eq_none h'] at hget; cases hget
        simp at hsome; omega
      subst this
      simp at hget; subst hget; exact ho
  · intro a ha
    have : a < h.length := Nat.lt_of_lt_of_le ha hi.le
    exact List.getElem?_append_left this

theorem set_spec {n : Nat} {h : Heap} (a : Addr) (o : Obj) (hi : Inv n h) (ha : n ≤ a)
    (ho : RefsGE n o) : Inv n (h.set a o) ∧ Keeps n h (h.set a o) := by
  refine ⟨⟨by simpa using hi.le, ?_⟩, ?_⟩
  · intro b o' hb hget
    by_cases hab : a = b
    · subst hab
      by_cases hl : a < h.length
      · rw [List.getElem?_set_self hl] at hget; cases hget; exact ho
      · rw [List.getElem?_eq_none (by simpa using Nat.le_of_not_lt hl)] at hget; cases hget
    · rw [List.getElem?_set_ne hab] at hget
      exact hi.fresh b o' hb hget
  · intro b hb
    exact List.getElem?_set_ne (by omega)

end Geff.MetaHeap
