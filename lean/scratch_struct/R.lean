import GeffProps.C04
namespace GeffProps.C04
open Geff.Np Geff.Structure Gen.Paths

theorem mem_groupKeys (g : Grp) (name : String) :
    name ∈ groupKeys g ↔ ∃ ch, (name, Node.group ch) ∈ g := by
  unfold groupKeys
  simp only [List.mem_map, List.mem_filter]
  constructor
  · rintro ⟨⟨k, nd⟩, ⟨hmem, hg⟩, rfl⟩
    cases nd with
    | array a => simp at hg
    | group ch => exact ⟨ch, hmem⟩
  · rintro ⟨ch, hmem⟩
    exact ⟨(name, .group ch), ⟨hmem, rfl⟩, rfl⟩

theorem lookup_mem {β : Type} (d : List (String × β)) (k : String) (v : β) (h : lookup d k = some v) :
    (k, v) ∈ d := by
  induction d with
  | nil => simp [lookup] at h
  | cons p t ih =>
    obtain ⟨k', v'⟩ := p
    by_cases hk : k' = k
    · simp [lookup, hk] at h; subst h; subst hk; simp
    · simp [lookup, hk] at h; exact List.mem_cons_of_mem _ (ih h)

/-- the names the reader offers for one side of a conformant store are the metadata's -/
theorem readPropNames_conformant (graph parent : Grp) (side : String) (n : Nat)
    (md : List (String × PropMeta))
    (hp : get graph side = some (.group parent))
    (hc : ConformantProps n md (get parent PROPS)) :
    ∃ names, readPropNames graph parent [side, PROPS] = .ok names ∧
      ∀ name, name ∈ names ↔ name ∈ keys md := by
  unfold readPropNames
  cases hprops : Geff.Structure.get parent PROPS with
  | none =>
    rw [hprops] at hc
    simp only [ConformantProps] at hc
    subst hc
    exact ⟨[], by simp, by simp [keys]⟩
  | some nd =>
    rw [hprops] at hc
    cases nd with
    | array a => simp [ConformantProps] at hc
    | group props =>
      obtain ⟨hkeys, hall⟩ := hc
      refine ⟨groupKeys props, ?_, fun name => ?_⟩
      · simp [openGroupPath, getPath_two, hp, hprops]
      · rw [mem_groupKeys, hkeys name]
        constructor
        · rintro ⟨ch, hmem⟩
          exact List.mem_map.2 ⟨_, hmem, rfl⟩
        · intro hk
          -- a listed member of a conformant props group is a group
          have hk' : name ∈ keys md := (hkeys name).2 hk
          cases hpm : lookup md name with
          | none => exact absurd hk' ((lookup_eq_none_iff md name).1 hpm)
          | some pm =>
            cases hpn : lookup props name with
            | none => exact absurd hk ((lookup_eq_none_iff props name).1 hpn)
            | some pn =>
              obtain ⟨pg, _, hg, _⟩ := hall name pm pn hpm hpn
              subst hg
              exact ⟨pg, lookup_mem props name _ hpn⟩

/-- **C04 at the reader**: `GeffReader(source, validate=True)` has exactly the outcome of
`validate_structure(source)` — it raises the same exception on a non-conformant target and on a
conformant one its constructor cannot fail any more — and the property names it offers are
exactly those listed in the metadata. -/
theorem C04_reader_outcome (t : Target) :
    (∀ e, validateStructure t = .error e → readerInit true t = .error e) ∧
    (validateStructure t = .ok () → ∃ names, readerInit true t = .ok names ∧
      ∀ m, readMetadata t = .ok m →
        (∀ name, name ∈ names.1 ↔ name ∈ keys m.nodeProps) ∧
        (∀ name, name ∈ names.2 ↔ name ∈ keys m.edgeProps)) := by
  constructor
  · intro e he
    simp [readerInit, he, bind, Except.bind]
  · intro hok
    have hconf := (C04_sound_complete t).1 hok
    cases t with
    | missingPath => exact absurd hconf id
    | store root attrs =>
      obtain ⟨graph, m, nodes, edges, nid, eid, N, E, rfl, rfl, hn, he, hnid, _, _, heid, _, _,
        hnp, hep, _⟩ := hconf
      obtain ⟨nn, hnn, hnn'⟩ := readPropNames_conformant graph nodes NODES N m.nodeProps hn hnp
      obtain ⟨en, hen, hen'⟩ := readPropNames_conformant graph edges EDGES E m.edgeProps he hep
      refine ⟨(nn, en), ?_, ?_⟩
      · simp [readerInit, hok, openStorelike, readMetadata, openArrayPath, getPath_two, hn, he,
          hnid, heid, expectGroup, hnn, hen, bind, Except.bind, pure, Except.pure]
      · intro m' hm'
        simp [readMetadata, pure, Except.pure] at hm'
        subst hm'
        exact ⟨hnn', hen'⟩

end GeffProps.C04
