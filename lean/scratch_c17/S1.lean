import Gen.Dataframe
import GeffProofs.Dataframe
open Geff.Dataframe Geff.PyDoDf Gen.Dataframe
set_option pp.proofs false
example {α} (g : InMemGeff α) : geffToDataframes g = .valueError := by
  unfold geffToDataframes
  trace_state
  sorry
