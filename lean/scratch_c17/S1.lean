import GeffProofs.DataframeGen
open Geff.Dataframe Geff.PyDoDf GeffProofs.DataframeGen
set_option pp.proofs false
example {α} (g : InMemGeff α) : Gen.Dataframe.geffToDataframes g = Res.valueError := by
  unfold Gen.Dataframe.geffToDataframes
  simp only [readToMemory, bind_ok, List.forIn_cons, List.forIn_nil, pairCol]
  simp only [show ("node" == "node") = true from by decide, show ("edge" == "node") = false from by decide, if_true, ite_false, Bool.false_eq_true, bind_ok]
  rw [props_loop "node"]
  rotate_left
  · intro p ws d
    simp only [reshape_squeeze, bind_ok]
    unfold stepSpec addProp
    obtain ⟨name, trail, rows, missing⟩ := p
    simp only [propMissing]
    rcases hsq : squeezeTrail trail with _ | ⟨k, _ | ⟨k2, rest⟩⟩
    · simp only [pdSeries]
      cases hc : colAt 0 rows with
      | none => simp
      | some col =>
        cases missing with
        | none => simp [mkSeries, anyOpt]
        | some m =>
          by_cases hany : m.any id = true <;> by_cases hlen : m.length = col.length <;>
            simp [mkSeries, anyOpt, seriesMask, maskSeries_map_val, hany, hlen]
    · simp only [shapeAt, List.range_eq_range']
      simp
      rw [cols_loop ⟨name, trail, rows, missing⟩]
      · cases addCols2 ⟨name, trail, rows, missing⟩ 0 k d <;> simp [lift]
      · intro i d
        unfold colStep
        simp only [sliceCol, pdSeries1]
        cases hc : colAt i rows with
        | none => simp
        | some col =>
          cases missing with
          | none => simp [mkSeries, anyOpt, subName]
          | some m =>
            by_cases hany : m.any id = true <;> by_cases hlen : m.length = col.length <;>
              simp [mkSeries, anyOpt, seriesMask, maskSeries_map_val, hany, hlen, subName]
    · simp [renderWarn]
  sorry
