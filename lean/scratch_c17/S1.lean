import GeffProps.C17
import GeffProofs.DataframeGen
open Geff.Dataframe Geff.PyDoDf GeffProofs.DataframeGen GeffProps.C17
set_option synthInstance.maxSize 512 in
#synth DecidableEq (List (Dict Nat) × List String)
set_option synthInstance.maxHeartbeats 200000 in
#synth DecidableEq (List (Dict Nat) × List String)
instance foo {α} [DecidableEq α] : DecidableEq (List (Dict α) × List String) :=
  @instDecidableEqProd _ _ (inferInstanceAs (DecidableEq (List (Dict α)))) inferInstance
example : Gen.Dataframe.geffToDataframes GeffProps.C17.collide =
      .ok ([[("id", [Cell.val 9, Cell.val 9])], [("source", [Cell.val 1]), ("target", [Cell.val 2])]], []) := by decide
