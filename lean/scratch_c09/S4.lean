import GeffProofs.BaseReadGen
namespace GeffProofs.BaseReadGen
open Geff.Np Geff.PRead Geff.PyDoRead Geff.Vlen

def toGenProps (l : List (String × MemProp)) : List (String × GMemProp) := l.map (fun q => (q.1, toGenProp q.2))

/-- every loaded var-length property has a well-formed offset table -/
def TablesOk (cast : Dtype → Val → Val) (md : List (String × PropMeta)) (ps : List (String × ZarrProp)) : Prop :=
  ∀ q ∈ ps, ∀ pm, lookup q.1 md = some pm → pm.varlength = true → TableOk cast q.2

/-- one iteration of `for name, props in self.…_props.items()` -/
def propStep (cast : Dtype → Val → Val) (md : List (String × PropMeta)) (mask : Option (List Bool))
    (q : String × ZarrProp) (acc : List (String × GMemProp)) : Res (ForInStep (List (String × GMemProp))) := do
  let pm ← dictGet md q.1
  let p ← Gen.BaseRead.loadPropToMemory cast q.2 mask pm
  pure (.yield (dictSet acc q.1 p))

theorem hasKey_false_of_not_mem {β} {k : String} {d : List (String × β)} (h : k ∉ keys d) : hasKey k d = false := by
  cases hk : hasKey k d with
  | false => rfl
  | true => exact absurd ((hasKey_iff k d).1 hk) h

theorem propLoop_spec (cast : Dtype → Val → Val) (md : List (String × PropMeta)) (mask : Option (List Bool))
    (body : String × ZarrProp → List (String × GMemProp) → Res (ForInStep (List (String × GMemProp))))
    (hstep : ∀ q acc, body q acc = propStep cast md mask q acc)
    (ps : List (String × ZarrProp)) (hnd : (keys ps).Nodup) (htab : TablesOk cast md ps) :
    ∀ acc, (∀ k ∈ keys ps, k ∉ keys acc) →
      forIn ps acc body = (fun l => acc ++ toGenProps l) <$> loadProps cast md mask ps := by
  induction ps with
  | nil => intro acc _; simp [loadProps, toGenProps, pure, Except.pure]
  | cons q t ih =>
    intro acc hacc
    obtain ⟨name, zp⟩ := q
    rw [List.forIn_cons, hstep]
    simp only [propStep, loadProps, dictGet]
    cases hl : lookup name md with
    | none => rfl
    | some pm =>
      simp only [ok_bind, pure_eq]
      rw [loadPropToMemory_eq cast zp mask pm (htab (name, zp) (by simp) pm hl)]
      cases hp : Geff.PRead.loadPropToMemory cast zp mask pm with
      | error e => simp [pure, Except.pure, bind, Except.bind, Functor.map, Except.map]
      | ok p =>
        simp only [map_ok, ok_bind, pure_eq]
        have hn : name ∉ keys acc := hacc name (by simp [keys])
        have hset : dictSet acc name (toGenProp p) = acc ++ [(name, toGenProp p)] := by
          simp [dictSet, Geff.PRead.insert, hasKey_false_of_not_mem hn]
        have hnd' : (keys t).Nodup ∧ name ∉ keys t := by
          simp only [keys, List.map_cons, List.nodup_cons] at hnd; exact ⟨hnd.2, hnd.1⟩
        rw [hset, ih hnd'.1 (fun q hq => htab q (List.mem_cons_of_mem _ hq))]
        · cases loadProps cast md mask t <;> simp [toGenProps, pure, Except.pure, bind, Except.bind, Functor.map, Except.map]
        · intro k hk
          simp only [keys, List.map_append, List.mem_append, List.map_cons, List.map_nil, List.mem_singleton, not_or]
          refine ⟨hacc k (by simp only [keys, List.map_cons]; exact List.mem_cons_of_mem _ hk), ?_⟩
          rintro rfl; exact hnd'.2 hk

/-- one iteration of the metadata pruning loops, through a lens on the metadata object -/
def pruneStep (get : GMeta → List (String × PropMeta)) (set : GMeta → List (String × PropMeta) → GMeta)
    (loaded : List String) (prop : String) (om : GMeta) : Res (ForInStep GMeta) :=
  if !(loaded.contains prop) then do
    let t ← dictDel (get om) prop
    pure (.yield (set om t))
  else pure (.yield om)

theorem pruneLoop_spec (get : GMeta → List (String × PropMeta)) (set : GMeta → List (String × PropMeta) → GMeta)
    (hgs : ∀ s d, get (set s d) = d) (hss : ∀ s d d', set (set s d) d' = set s d')
    (loaded : List String) (body : String → GMeta → Res (ForInStep GMeta))
    (hstep : ∀ prop om, body prop om = pruneStep get set loaded prop om)
    (ks : List String) (hnd : ks.Nodup) (om : GMeta) :
    ∀ d, (∀ k ∈ ks, hasKey k d = true) →
      forIn ks (set om d) body = .ok (set om (d.filter (fun p => !(ks.contains p.1 && !loaded.contains p.1)))) := by
  induction ks with
  | nil =>
    intro d _
    have : List.filter (fun _ => true) d = d := List.filter_eq_self.2 (fun _ _ => rfl)
    simp [pure, Except.pure, this]
  | cons k t ih =>
    intro d hd
    have hkm : loaded.contains k = true ↔ k ∈ loaded := by simp
    have hnd' := List.nodup_cons.1 hnd
    rw [List.forIn_cons, hstep]
    simp only [pruneStep]
    by_cases hk : loaded.contains k = true
    · simp only [hk, Bool.not_true, Bool.false_eq_true, if_false, pure_eq, ok_bind]
      rw [ih hnd'.2 d (fun x hx => hd x (List.mem_cons_of_mem _ hx))]
      congr 2
      apply List.filter_congr
      intro p _
      by_cases hpk : p.1 = k
      · simp only [hpk, hk]; simp
      · simp [hpk]
    · simp only [hk, Bool.not_false, if_true, dictDel, hgs, hd k (by simp), ok_bind, pure_eq, hss]
      rw [ih hnd'.2]
      · congr 2
        rw [List.filter_filter]
        apply List.filter_congr
        intro p _
        by_cases hpk : p.1 = k
        · have : k ∉ loaded := fun h => hk (hkm.2 h)
          simp [hpk, this]
        · simp [hpk]
      · intro x hx
        have hxk : x ≠ k := by rintro rfl; exact hnd'.1 hx
        have := hd x (List.mem_cons_of_mem _ hx)
        simp only [hasKey, List.any_eq_true, List.mem_filter] at this ⊢
        obtain ⟨p, hp, hpx⟩ := this
        refine ⟨p, ⟨hp, ?_⟩, hpx⟩
        simp at hpx
        simp [hpx, hxk]
end GeffProofs.BaseReadGen
