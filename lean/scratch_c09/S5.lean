import GeffProofs.BaseReadGen
namespace GeffProofs.BaseReadGen
open Geff.Np Geff.PRead Geff.PyDoRead Geff.Vlen

def toGen (g : InMem) : GInMem :=
  { metadata := ⟨g.nodeMeta, g.edgeMeta, g.metaRest⟩, nodeIds := ⟨[], g.nodeIds⟩,
    nodeProps := toGenProps g.nodeProps, edgeIds := ⟨[2], g.edgeIds⟩, edgeProps := toGenProps g.edgeProps }

theorem hasKey_of_mem_keys {β} {k : String} {d : List (String × β)} (h : k ∈ keys d) : hasKey k d = true :=
  (hasKey_iff k d).2 h

theorem prune_filter (md : List (String × PropMeta)) (loaded : List (String × ZarrProp)) :
    md.filter (fun p => !((keys md).contains p.1 && !(keys loaded).contains p.1)) = pruneMeta md loaded := by
  unfold pruneMeta
  apply List.filter_congr
  intro p hp
  have hm : p.1 ∈ keys md := List.mem_map.2 ⟨p, hp, rfl⟩
  simp [hm, hasKey_eq_contains]

/-- everything after the edge selection in `build`: the edge property loop and the two pruning loops -/
theorem build_tail (cast : Dtype → Val → Val) (r : Reader) (m' : Option (List Bool)) (nodesA : NArr Int)
    (np : List (String × GMemProp)) (edgesOut : NArr (Int × Int))
    (b1 : String × ZarrProp → List (String × GMemProp) → Res (ForInStep (List (String × GMemProp))))
    (b2 b3 : String → GMeta → Res (ForInStep GMeta))
    (h1 : ∀ q acc, b1 q acc = propStep cast r.store.edgeMeta m' q acc)
    (h2 : ∀ p om, b2 p om = pruneStep (·.nodePropsMetadata) (fun s d => { s with nodePropsMetadata := d })
      (keys r.nodeProps) p om)
    (h3 : ∀ p om, b3 p om = pruneStep (·.edgePropsMetadata) (fun s d => { s with edgePropsMetadata := d })
      (keys r.edgeProps) p om)
    (he : (keys r.edgeProps).Nodup) (hmn : (keys r.store.nodeMeta).Nodup) (hme : (keys r.store.edgeMeta).Nodup)
    (hte : TablesOk cast r.store.edgeMeta r.edgeProps) :
    (do let s1 ← forIn r.edgeProps [] b1
        let s2 ← forIn (keys r.store.nodeMeta)
          ({ nodePropsMetadata := r.store.nodeMeta, edgePropsMetadata := r.store.edgeMeta, rest := r.store.metaRest } : GMeta) b2
        let s3 ← forIn (keys r.store.edgeMeta) s2 b3
        pure ({ metadata := s3, nodeIds := nodesA, nodeProps := np, edgeIds := edgesOut, edgeProps := s1 } : GInMem))
    = (fun ep => ({ metadata := ⟨pruneMeta r.store.nodeMeta r.nodeProps, pruneMeta r.store.edgeMeta r.edgeProps, r.store.metaRest⟩,
                    nodeIds := nodesA, nodeProps := np, edgeIds := edgesOut, edgeProps := toGenProps ep } : GInMem))
        <$> loadProps cast r.store.edgeMeta m' r.edgeProps := by
  rw [propLoop_spec cast r.store.edgeMeta m' b1 h1 r.edgeProps he hte [] (by simp [keys])]
  have l2 := pruneLoop_spec (·.nodePropsMetadata) (fun s d => { s with nodePropsMetadata := d }) (fun _ _ => rfl)
    (fun _ _ _ => rfl) (keys r.nodeProps) b2 h2 (keys r.store.nodeMeta) hmn
    ⟨r.store.nodeMeta, r.store.edgeMeta, r.store.metaRest⟩ r.store.nodeMeta (fun k hk => hasKey_of_mem_keys hk)
  have l3 := pruneLoop_spec (·.edgePropsMetadata) (fun s d => { s with edgePropsMetadata := d }) (fun _ _ => rfl)
    (fun _ _ _ => rfl) (keys r.edgeProps) b3 h3 (keys r.store.edgeMeta) hme
    ⟨pruneMeta r.store.nodeMeta r.nodeProps, r.store.edgeMeta, r.store.metaRest⟩ r.store.edgeMeta
    (fun k hk => hasKey_of_mem_keys hk)
  simp only [prune_filter] at l2 l3
  cases loadProps cast r.store.edgeMeta m' r.edgeProps with
  | error e => rfl
  | ok ep =>
    simp only [map_ok, ok_bind, List.nil_append]
    rw [l2]; simp only [ok_bind]; rw [l3]; rfl

theorem endpointsIn_length (nodes : List Int) (edges : List (Int × Int)) : (endpointsIn nodes edges).length = edges.length := by
  simp [endpointsIn]

theorem build_eq (cast : Dtype → Val → Val) (r : Reader) (nm em : Option (List Bool))
    (hn : (keys r.nodeProps).Nodup) (he : (keys r.edgeProps).Nodup)
    (hmn : (keys r.store.nodeMeta).Nodup) (hme : (keys r.store.edgeMeta).Nodup)
    (htn : TablesOk cast r.store.nodeMeta r.nodeProps) (hte : TablesOk cast r.store.edgeMeta r.edgeProps) :
    Gen.BaseRead.build cast r nm em = toGen <$> Geff.PRead.build cast r nm em := by
  unfold Gen.BaseRead.build Geff.PRead.build
  have hs : shapeAt (selfNodes r).shape 0 = .ok r.store.ids.length := rfl
  rw [hs]
  simp only [ok_bind, maskToIndices_eq, loadZarrSubset_eq]
  cases hni : Geff.PRead.maskToIndices nm r.store.ids.length with
  | error e => rfl
  | ok ni =>
    simp only [ok_bind, selfNodes]
    cases hnodes : Geff.PRead.loadZarrSubset r.store.ids ni with
    | error e => rfl
    | ok nodes =>
      simp only [ok_bind, packRows, Except.map]
      rw [propLoop_spec cast r.store.nodeMeta nm _ ?_ r.nodeProps hn htn [] (by simp [keys])]
      on_goal 2 => intro q acc; rfl
      cases hnp : loadProps cast r.store.nodeMeta nm r.nodeProps with
      | error e => rfl
      | ok np =>
        simp only [map_ok, ok_bind, List.nil_append]
        have hs2 : shapeAt (npAsarray (zarrGetAll (selfEdges r))).shape 0 = .ok r.store.edges.length := rfl
        rw [hs2]
        simp only [ok_bind]
        cases hei : Geff.PRead.maskToIndices em r.store.edges.length with
        | error e => rfl
        | ok ei =>
          simp only [ok_bind, dictKeys, selfMetadata, deepcopy, npAsarray, zarrGetAll, selfEdges]
          trace_state
          sorry
end GeffProofs.BaseReadGen
