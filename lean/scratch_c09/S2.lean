import Gen.BaseRead
import GeffProofs.PartialRead
import GeffProofs.SerializationGen
namespace GeffProofs.BaseReadGen
open Geff.Np Geff.PRead Geff.PyDoRead Geff.Vlen

/-- what `validate_structure` and the uint64 cast guarantee about the offset table of a var-length
property: rank ≤ 2, `prod trail` scalars per row, every scalar a non-negative integer -/
def RowsOk (trail : List Nat) (rows : List (List Val)) : Prop :=
  trail.length ≤ 1 ∧ ∀ r ∈ rows, r.length = prod trail ∧ ∀ v ∈ r, (valNat? v).isSome = true

theorem mapM_valNat (r : List Val) (h : ∀ v ∈ r, (valNat? v).isSome = true) :
    ∃ l, r.mapM valNat? = some l ∧ l.length = r.length := by
  induction r with
  | nil => exact ⟨[], rfl, rfl⟩
  | cons v t ih =>
    obtain ⟨l, hl, hlen⟩ := ih (fun x hx => h x (List.mem_cons_of_mem _ hx))
    have hv := h v (by simp)
    cases hv' : valNat? v with
    | none => simp [hv'] at hv
    | some o => exact ⟨o :: l, by simp [List.mapM_cons, hv', hl], by simp [hlen]⟩

theorem rows_bridge (dt : Dtype) (d : List Val) (w : Nat) (hw : 0 < w) (rows : List (List Val))
    (h : ∀ r ∈ rows, r.length = w ∧ ∀ v ∈ r, (valNat? v).isSome = true) :
    ∃ prs, parseRows w rows.length rows.flatten = some prs ∧
      rows.mapM (decodeValuesRow dt d) = ofVlen (decodeRows dt d prs) := by
  induction rows with
  | nil => exact ⟨[], rfl, rfl⟩
  | cons r rs ih =>
    obtain ⟨prs, hp, hm⟩ := ih (fun x hx => h x (List.mem_cons_of_mem _ hx))
    obtain ⟨hlen, hv⟩ := h r (by simp)
    obtain ⟨l, hl, hll⟩ := mapM_valNat r hv
    cases l with
    | nil => simp at hll; omega
    | cons o sh =>
      refine ⟨(o, sh) :: prs, ?_, ?_⟩
      · simp only [List.length_cons, parseRows, List.flatten_cons]
        rw [List.take_left' hlen, List.drop_left' hlen, hl, hp]
      · rw [List.mapM_cons, hm]
        simp only [decodeValuesRow, hl, decodeRows]
        cases decodeRow dt d (o, sh) <;> simp [ofVlen, bind, Except.bind]
        cases decodeRows dt d prs <;> simp [ofVlen, pure, Except.pure]

theorem decodeRows_modelled (dt : Dtype) (d : List Val) (prs : List (Nat × List Nat)) (w : String) :
    decodeRows dt d prs ≠ .unmodelled w := by
  induction prs with
  | nil => simp [decodeRows]
  | cons p t ih =>
    have hrow : (∃ a, decodeRow dt d p = .ok a) ∨ decodeRow dt d p = .valueError := by
      simp only [decodeRow]
      by_cases hc : (List.take (prod p.2) (List.drop p.1 d)).length = prod p.2
      · exact Or.inl ⟨_, if_pos hc⟩
      · exact Or.inr (if_neg hc)
    rcases hrow with ⟨a, ha⟩ | ha
    · simp only [decodeRows, ha]
      cases h : decodeRows dt d t <;> simp_all
    · simp [decodeRows, ha]

theorem flatten_length_one (rows : List (List Val)) (h : ∀ r ∈ rows, r.length = 1) :
    rows.flatten.length = rows.length := by
  induction rows with
  | nil => rfl
  | cons r rs ih =>
    simp [h r (by simp), ih (fun x hx => h x (List.mem_cons_of_mem _ hx))]; omega

theorem vlen_bridge {μ : Type} (dt : Dtype) (trail : List Nat) (rows : List (List Val)) (d : List Val)
    (m : μ) (h : RowsOk trail rows) :
    ofVlen (Gen.Serialization.deserializeVlenPropertyData
        (⟨.u64, rows.length :: trail, rows.flatten⟩ : NdArr) m (⟨dt, [d.length], d⟩ : NdArr))
      = (fun es => (es.map some, m)) <$> deserialize dt trail rows d := by
  obtain ⟨hrank, hrows⟩ := h
  have key : ofVlen (GeffProofs.SerializationGen.liftList m
        (deserializeVlen (⟨.u64, rows.length :: trail, rows.flatten⟩ : NdArr) (⟨dt, [d.length], d⟩ : NdArr)))
      = (fun es => (es.map some, m)) <$> deserialize dt trail rows d ∧
      ∀ w, deserializeVlen (⟨.u64, rows.length :: trail, rows.flatten⟩ : NdArr) (⟨dt, [d.length], d⟩ : NdArr) ≠ .unmodelled w := by
    cases rows with
    | nil =>
      match trail, hrank with
      | [], _ => simp [deserializeVlen, deserialize, GeffProofs.SerializationGen.liftList, ofVlen]
      | [w], _ => simp [deserializeVlen, deserialize, GeffProofs.SerializationGen.liftList, ofVlen]
    | cons r rs =>
      match trail, hrank with
      | [], _ => simp [deserializeVlen, deserialize, GeffProofs.SerializationGen.liftList, ofVlen]
      | [w], _ =>
        by_cases hw : w = 0
        · subst hw; simp [deserializeVlen, deserialize, GeffProofs.SerializationGen.liftList, ofVlen]
        · have hrows' : ∀ x ∈ r :: rs, x.length = w ∧ ∀ v ∈ x, (valNat? v).isSome = true := by
            intro x hx; have := hrows x hx; simpa [prod] using this
          obtain ⟨prs, hp, hm⟩ := rows_bridge dt d w (by omega) (r :: rs) hrows'
          simp only [deserializeVlen, deserialize, List.length_cons] at hp ⊢
          simp only [hw, hp, hm]
          constructor
          · cases decodeRows dt d prs <;> simp [GeffProofs.SerializationGen.liftList, ofVlen]
          · intro w'; exact decodeRows_modelled dt d prs w'
  rw [GeffProofs.SerializationGen.deserialize_eq _ _ m ?_ key.2]
  · exact key.1
  · intro n hn
    simp only [List.cons.injEq] at hn
    obtain ⟨rfl, rfl⟩ := hn
    exact flatten_length_one rows (fun r hr => by simpa [prod] using (hrows r hr).1)
end GeffProofs.BaseReadGen
