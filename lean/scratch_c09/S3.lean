import Gen.BaseRead
import GeffProofs.PartialRead
import GeffProofs.SerializationGen
namespace GeffProofs.BaseReadGen
open Geff.Np Geff.PRead Geff.PyDoRead Geff.Vlen

def RowsOk (trail : List Nat) (rows : List (List Val)) : Prop :=
  trail.length ≤ 1 ∧ ∀ r ∈ rows, r.length = prod trail ∧ ∀ v ∈ r, (valNat? v).isSome = true
def packRows {α} (trail : List Nat) (r : Res (List α)) : Res (NArr α) := r.map (fun rows => ⟨trail, rows⟩)
axiom maskToIndices_eq (mask : Option (List Bool)) (n : Nat) :
    Gen.BaseRead.maskToIndices mask n = Geff.PRead.maskToIndices mask n
axiom loadZarrSubset_eq {α} (z : ZArr α) (idx : Option (List Nat)) :
    Gen.BaseRead.loadZarrSubset z idx = packRows z.trail (Geff.PRead.loadZarrSubset z.rows idx)
axiom vlen_bridge {μ : Type} (dt : Dtype) (trail : List Nat) (rows : List (List Val)) (d : List Val)
    (m : μ) (h : RowsOk trail rows) :
    ofVlen (Gen.Serialization.deserializeVlenPropertyData
        (⟨.u64, rows.length :: trail, rows.flatten⟩ : NdArr) m (⟨dt, [d.length], d⟩ : NdArr))
      = (fun es => (es.map some, m)) <$> deserialize dt trail rows d

def toGenValues : Values → GValues
  | .dense dt tr rows => .dense ⟨dt, tr, rows⟩
  | .object es => .object (es.map some)
def toGenProp (p : MemProp) : GMemProp := ⟨toGenValues p.values, p.missing⟩

/-- the offset table of a var-length property, after the uint64 cast -/
def TableOk (cast : Dtype → Val → Val) (zp : ZarrProp) : Prop :=
  RowsOk zp.values.trail (zp.values.rows.map (·.map (cast .u64)))

theorem loadZarrSubset_mem {α} (rows : List α) (idx : Option (List Nat)) (out : List α)
    (h : Geff.PRead.loadZarrSubset rows idx = .ok out) : ∀ r ∈ out, r ∈ rows := by
  cases idx with
  | none => simp [Geff.PRead.loadZarrSubset] at h; subst h; exact fun r hr => hr
  | some is =>
    simp only [Geff.PRead.loadZarrSubset] at h
    induction is generalizing out with
    | nil => simp [pure, Except.pure] at h; subst h; simp
    | cons i t ih =>
      rw [List.mapM_cons] at h
      cases hi : rows[i]? with
      | none => simp [hi, bind, Except.bind] at h
      | some x =>
        simp only [hi, bind, Except.bind] at h
        generalize hX : (List.mapM _ t : Res (List α)) = X at h
        cases X with
        | error e => simp at h
        | ok l =>
          simp [pure, Except.pure] at h
          subst h
          intro r hr
          rcases List.mem_cons.1 hr with rfl | hr
          · exact List.mem_of_getElem? hi
          · exact ih l hX r hr

theorem loadPropToMemory_eq (cast : Dtype → Val → Val) (zp : ZarrProp) (mask : Option (List Bool))
    (pm : PropMeta) (htab : pm.varlength = true → TableOk cast zp) :
    Gen.BaseRead.loadPropToMemory cast zp mask pm
      = toGenProp <$> Geff.PRead.loadPropToMemory cast zp mask pm := by
  unfold Gen.BaseRead.loadPropToMemory Geff.PRead.loadPropToMemory
  have hs : shapeAt (propValues zp).shape 0 = .ok zp.values.rows.length := rfl
  rw [hs]
  simp only [ok_bind, maskToIndices_eq, loadZarrSubset_eq]
  cases hidx : Geff.PRead.maskToIndices mask zp.values.rows.length with
  | error e => rfl
  | ok idx =>
    simp only [ok_bind, propValues]
    cases hrows : Geff.PRead.loadZarrSubset zp.values.rows idx with
    | error e => rfl
    | ok rows =>
      simp only [ok_bind, packRows, Except.map]
      have hmem := loadZarrSubset_mem _ _ _ hrows
      obtain ⟨⟨trail, allrows⟩, missing, data⟩ := zp
      obtain ⟨dt, vl, rest⟩ := pm
      have fin : ∀ (ms : Option (List Bool)),
          (match data with
            | some d =>
              if vl = true then
                (ofVlen (Gen.Serialization.deserializeVlenPropertyData
                    (asDtype cast { trail := trail, rows := rows } (if vl = true then Dtype.u64 else npDtype dt)).toNdArr
                    ms (npArrayFlat cast d (npDtype dt))) >>= fun t7 => pure (GMemProp.ofVlenDict t7) : Res GMemProp)
              else pure { values := GValues.dense (asDtype cast { trail := trail, rows := rows }
                      (if vl = true then Dtype.u64 else npDtype dt)), missing := ms }
            | none =>
              if vl = true then (raiseValueError : Res GMemProp)
              else pure { values := GValues.dense (asDtype cast { trail := trail, rows := rows }
                      (if vl = true then Dtype.u64 else npDtype dt)), missing := ms })
          = toGenProp <$> assemble cast ⟨⟨trail, allrows⟩, missing, data⟩ ⟨dt, vl, rest⟩ rows ms := by
        intro ms
        cases vl with
        | false => cases data <;> simp [assemble, toGenProp, toGenValues, asDtype, npDtype]
        | true =>
          cases data with
          | none => simp [assemble, raiseValueError]
          | some d =>
            have hok : RowsOk trail (rows.map (·.map (cast .u64))) := by
              have := htab rfl
              simp only [TableOk] at this
              refine ⟨this.1, ?_⟩
              intro r hr
              obtain ⟨r0, hr0, rfl⟩ := List.mem_map.1 hr
              exact this.2 _ (List.mem_map.2 ⟨r0, hmem r0 hr0, rfl⟩)
            have hb := vlen_bridge dt trail (rows.map (·.map (cast .u64))) (d.map (cast dt)) ms hok
            simp only [assemble, asDtype, RowArr.toNdArr, npArrayFlat, npDtype, if_true, List.length_map] at hb ⊢
            simp only [Option.map]
            rw [hb]
            cases deserialize dt trail (List.map (fun x => List.map (cast Dtype.u64) x) rows) (List.map (cast dt) d) <;>
              simp [toGenProp, toGenValues, GMemProp.ofVlenDict]
      cases missing with
      | none =>
        have := fin none
        cases data with
        | none => cases vl <;> simp [hasMissing, hasData, assemble, raiseValueError, toGenProp, toGenValues, asDtype, npDtype, bind, Except.bind]
        | some d => simp_all [hasMissing, hasData, propDataAll]
      | some m =>
        simp only [hasMissing, propMissing, Option.isSome_some, if_true, ok_bind]
        cases hm : Geff.PRead.loadZarrSubset m idx with
        | error e => rfl
        | ok mm =>
          have := fin (some mm)
          cases data with
          | none => cases vl <;> simp [hasData, assemble, raiseValueError, toGenProp, toGenValues, asDtype, npDtype, npArrayBool, bind, Except.bind]
          | some d => simp_all [hasData, propDataAll, npArrayBool]
end GeffProofs.BaseReadGen
