import Gen.BaseRead
import GeffProofs.PartialRead
namespace GeffProofs.BaseReadGen
open Geff.Np Geff.PRead Geff.PyDoRead

theorem maskToIndices_eq (mask : Option (List Bool)) (n : Nat) :
    Gen.BaseRead.maskToIndices mask n = Geff.PRead.maskToIndices mask n := by
  cases mask with
  | none => rfl
  | some m =>
    simp only [Gen.BaseRead.maskToIndices, Geff.PRead.maskToIndices, maskShape, npAsarrayMask, npWhere0, raiseIndexError]
    by_cases h : m.length = n <;> simp [h, bind, Except.bind, pure, Except.pure]

def packRows {α} (trail : List Nat) (r : Res (List α)) : Res (NArr α) := r.map (fun rows => ⟨trail, rows⟩)

theorem loadZarrSubset_eq {α} (z : ZArr α) (idx : Option (List Nat)) :
    Gen.BaseRead.loadZarrSubset z idx = packRows z.trail (Geff.PRead.loadZarrSubset z.rows idx) := by
  cases idx with
  | none => rfl
  | some is =>
    cases is with
    | nil => simp [Gen.BaseRead.loadZarrSubset, Geff.PRead.loadZarrSubset, packRows, npEmpty, ZArr.shape, bind, Except.bind, pure, Except.pure, Except.map]
    | cons i t =>
      simp only [Gen.BaseRead.loadZarrSubset, Geff.PRead.loadZarrSubset, packRows, oindex, npAsarray]
      generalize (List.mapM _ (i :: t) : Res (List α)) = X
      cases X <;> simp [bind, Except.bind, pure, Except.pure, Except.map]
end GeffProofs.BaseReadGen
