import Gen.Paths
open Gen.Paths
def splitChars : List Char → List Char → List (List Char)
  | [], cur => [cur.reverse]
  | c :: t, cur => if c = '/' then cur.reverse :: splitChars t [] else splitChars t (c :: cur)
def keyPath (s : String) : List String := (splitChars s.toList []).map String.ofList
example : keyPath NODE_PROPS = [NODES, PROPS] := by decide
example : keyPath NODES = [NODES] := by decide
example : NODE_PROPS.splitOn "/" = [NODES, PROPS] := by decide
