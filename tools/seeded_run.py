#!/usr/bin/env python3
"""tools/seeded_run.py [--verify-demo] [--tier quick] [ids…]

For every seeded change /verif/seeded/<id>/ (patch.diff, demo.py, meta.json): make a scratch
worktree of /repo's HEAD under /tmp, apply the patch, (optionally) run the demonstration with and
without the patch, run the checks of the property it breaks (and any listed in meta["also_run"])
against that tree via $GEFF_REPO, record whether they report a violation, remove the worktree.
/repo itself is never touched.  Results are written to seeded/RESULTS.json.
"""
import argparse
import json
import os
import subprocess
import sys
import time
from pathlib import Path

V = Path(__file__).resolve().parent.parent
# the checkout whose ./check is run (default: this one). A frozen copy can be named while builders edit /verif.
CHECK_ROOT = Path(os.environ.get("SEEDED_CHECK_ROOT", V))


def sh(cmd, **kw):
    return subprocess.run(cmd, shell=True, capture_output=True, text=True, **kw)


def pypath(tree):
    return f"{tree}/packages/geff/src:{tree}/packages/geff-spec/src"


def main():
    ap = argparse.ArgumentParser()
    ap.add_argument("ids", nargs="*")
    ap.add_argument("--verify-demo", action="store_true")
    ap.add_argument("--tier", default="quick")
    ap.add_argument("--demo-only", action="store_true", help="only (re)run the demonstrations, keep the recorded check results")
    ap.add_argument("--tests", action="store_true", help="also run the repository's test-suite against the patched tree (must pass)")
    a = ap.parse_args()
    sdir = V / "seeded"
    ids = a.ids or sorted(p.name for p in sdir.iterdir() if (p / "patch.diff").exists())
    resf = sdir / "RESULTS.json"
    results = json.loads(resf.read_text()) if resf.exists() else {}
    for sid in ids:
        d = sdir / sid
        meta = json.loads((d / "meta.json").read_text())
        wt = f"/tmp/seeded-{sid}-{os.getpid()}"
        r = sh(f"git -C /repo worktree add --detach {wt} HEAD")
        if r.returncode:
            print(sid, "worktree failed", r.stderr)
            continue
        try:
            entry = {"property": meta["property"], "tier": a.tier, "repo_head": sh("git -C /repo rev-parse --short HEAD").stdout.strip()}
            if not (a.verify_demo or a.demo_only):   # keep the demonstration results recorded when the change was stored
                prev = (json.loads(resf.read_text()) if resf.exists() else {}).get(sid, {})
                for k in ("demo_without_patch_exit", "demo_with_patch_exit", "demo_with_patch_tail",
                          "tests_with_patch_exit", "tests_with_patch_tail"):
                    if k in prev:
                        entry[k] = prev[k]
            if (a.verify_demo or a.demo_only) and (d / "demo.py").exists():
                env = dict(os.environ, PYTHONPATH=pypath(wt), PYTHONDONTWRITEBYTECODE="1")
                r0 = subprocess.run(["/venv/bin/python", str(d / "demo.py")], capture_output=True, text=True, env=env, timeout=900)
                entry["demo_without_patch_exit"] = r0.returncode
            ap_ = sh(f"git -C {wt} apply {d / 'patch.diff'}")
            if ap_.returncode:
                entry["apply_error"] = ap_.stderr[-500:]
                results[sid] = entry
                print(sid, "PATCH DOES NOT APPLY", ap_.stderr[-200:])
                continue
            if (a.verify_demo or a.demo_only) and (d / "demo.py").exists():
                r1 = subprocess.run(["/venv/bin/python", str(d / "demo.py")], capture_output=True, text=True, env=env, timeout=900)
                entry["demo_with_patch_exit"] = r1.returncode
                entry["demo_with_patch_tail"] = (r1.stdout + r1.stderr)[-300:]
            if a.tests:
                envt = dict(os.environ, PYTHONPATH=pypath(wt), PYTHONDONTWRITEBYTECODE="1")
                rt = subprocess.run(["/venv/bin/python", "-m", "pytest", "-q", "-p", "no:cacheprovider", "-x",
                                     "--ignore=packages/geff/tests/test_cli.py", "packages"],
                                    capture_output=True, text=True, env=envt, cwd=wt, timeout=3600)
                entry["tests_with_patch_exit"] = rt.returncode
                entry["tests_with_patch_tail"] = rt.stdout.strip().splitlines()[-1][-200:] if rt.stdout.strip() else ""
            if a.demo_only:
                import fcntl
                with open(str(resf) + ".lock", "w") as lk:
                    fcntl.flock(lk, fcntl.LOCK_EX)
                    cur = json.loads(resf.read_text()) if resf.exists() else {}
                    e0 = cur.get(sid, {})
                    for k in ("demo_without_patch_exit", "demo_with_patch_exit", "demo_with_patch_tail"):
                        if k in entry:
                            e0[k] = entry[k]
                    cur[sid] = e0
                    resf.write_text(json.dumps(cur, indent=1, sort_keys=True) + "\n")
                print(sid, "demo", entry.get("demo_without_patch_exit"), entry.get("demo_with_patch_exit"), flush=True)
                continue
            entry["checks"] = {}
            for pid in [meta["property"], *meta.get("also_run", [])]:
                t = time.time()
                env = dict(os.environ, GEFF_REPO=wt, VERIF_SEED=os.environ.get("VERIF_SEED", "0"))
                c = subprocess.run([str(CHECK_ROOT / "check"), pid, "--tier", a.tier], capture_output=True, text=True, env=env, timeout=7200)
                vio = [ln for ln in c.stdout.splitlines() if ln.startswith("VIOLATION")]
                entry["checks"][pid] = {"exit": c.returncode, "violation_lines": vio[:4],
                                        "concrete": any("no-failing-input-found" not in v for v in vio),
                                        "wall_s": round(time.time() - t, 1),
                                        "detail": [ln for ln in c.stdout.splitlines() if ln.startswith("  failing input")][:4]}
            caught = any(x["exit"] == 1 for x in entry["checks"].values())
            entry["caught"] = caught
            results[sid] = entry
            print(sid, meta["property"], "CAUGHT" if caught else "MISSED", {k: (v["exit"], "concrete" if v["concrete"] else "") for k, v in entry["checks"].items()}, flush=True)
            # merge into the results file at once (several runners may work on disjoint id sets)
            import fcntl
            with open(str(resf) + ".lock", "w") as lk:
                fcntl.flock(lk, fcntl.LOCK_EX)
                cur = json.loads(resf.read_text()) if resf.exists() else {}
                cur[sid] = entry
                resf.write_text(json.dumps(cur, indent=1, sort_keys=True) + "\n")
        finally:
            sh(f"git -C /repo worktree remove --force {wt}")
    # restore Gen for the real tree
    sh(f"/venv/bin/python {CHECK_ROOT}/harness/translate.py")


if __name__ == "__main__":
    sys.exit(main())
