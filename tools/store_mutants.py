#!/usr/bin/env python3
"""tools/store_mutants.py Cxx "needs 1" "needs 2" … : copy /tmp/mutants/Cxx/k -> seeded/Cxx-k with meta.json,
run them (with demo verification), remove the mutant worktree."""
import json, shutil, subprocess, sys
from pathlib import Path
V = Path(__file__).resolve().parent.parent
args = sys.argv[1:]
tag = ""
if args[0] == "--tag":
    tag = args[1]; args = args[2:]
pid, needs = args[0], args[1:]
ids = []
for k, need in enumerate(needs, 1):
    src = Path(f"/tmp/mutants/{pid}{tag}/{k}")
    n = len(list((V / "seeded").glob(f"{pid}-*")))
    dst = V / "seeded" / f"{pid}-{n + 1}"
    dst.mkdir(parents=True)
    for f in ("patch.diff", "demo.py", "notes.md"):
        if (src / f).exists():
            shutil.copy(src / f, dst / f)
    (dst / "meta.json").write_text(json.dumps({
        "property": pid, "needs": need,
        "origin": "fresh sub-agent given only the property text and a scratch worktree of /repo",
        "ran": "demo.py with and without the patch (tools/seeded_run.py --verify-demo); the full pytest suite against the patched tree (tools/seeded_run.py --tests; result in seeded/RESULTS.json), also run by the sub-agent"}, indent=1))
    ids.append(dst.name)
subprocess.run([sys.executable, str(V / "tools" / "seeded_run.py"), "--verify-demo", "--tests", *ids])
subprocess.run(f"git -C /repo worktree remove --force /tmp/mw-{pid}{tag}; git -C /repo branch -D mw-{pid}{tag} -q; rm -rf /tmp/mutants/{pid}{tag} /tmp/prompt_{pid}{tag}.txt", shell=True)
