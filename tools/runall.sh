#!/bin/sh
# tools/runall.sh [tier] : run every claimed check sequentially, summarise exit codes
tier=${1:-quick}
here=$(cd "$(dirname "$0")/.." && pwd); cd "$here"
for id in $(python3 -c "import json;print(' '.join(c['property_id'] for c in json.load(open('MANIFEST.json'))['checks']))"); do
  start=$(date +%s)
  ./check "$id" --tier "$tier" > "/tmp/runall_$id.log" 2>&1; rc=$?
  echo "$id exit=$rc $(( $(date +%s) - start ))s $(grep -c '^VIOLATION' /tmp/runall_$id.log) violations; $(tail -1 /tmp/runall_$id.log)"
done
