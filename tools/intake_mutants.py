#!/usr/bin/env python3
"""tools/intake_mutants.py Cxx tag first_number 'needs of change 1' 'needs of change 2' …
copies /tmp/mutants/Cxx<tag>/<k>/{patch.diff,demo.py,notes.md} to seeded/Cxx-<n>/ with a meta.json;
verification (demo with/without, test-suite, checks) is then done by tools/seeded_run.py --verify-demo --tests."""
import json, shutil, sys
from pathlib import Path
V = Path(__file__).resolve().parent.parent
pid, tag, first = sys.argv[1], sys.argv[2], int(sys.argv[3])
needs = sys.argv[4:]
src = Path(f"/tmp/mutants/{pid}{tag}")
ids = []
for k, need in enumerate(needs, start=1):
    d = src / str(k)
    if not (d / "patch.diff").exists():
        print("missing", d); continue
    sid = f"{pid}-{first + k - 1}"
    out = V / "seeded" / sid
    out.mkdir(parents=True, exist_ok=True)
    for f in ("patch.diff", "demo.py", "notes.md"):
        if (d / f).exists():
            shutil.copy(d / f, out / f)
    (out / "meta.json").write_text(json.dumps({
        "property": pid, "needs": need, "wave": 6,
        "origin": "fresh sub-agent given only the property text and a scratch worktree of /repo",
        "ran": "demo.py with and without the patch (tools/seeded_run.py --verify-demo); the full pytest suite against the patched tree (tools/seeded_run.py --tests; result in seeded/RESULTS.json), also run by the sub-agent"}, indent=1))
    ids.append(sid)
print(" ".join(ids))
