#!/usr/bin/env python3
"""tools/mkmutant.py Cxx N -> creates worktree /tmp/mw-Cxx and prints the prompt for a mutant-writing agent."""
import json, subprocess, sys
from pathlib import Path
V = Path(__file__).resolve().parent.parent
pid, n = sys.argv[1], sys.argv[2]
tag = sys.argv[3] if len(sys.argv) > 3 else ""
wt = f"/tmp/mw-{pid}{tag}"
out = f"/tmp/mutants/{pid}{tag}"
p = [json.loads(l) for l in (V / "properties.jsonl").read_text().splitlines() if l.strip()]
p = next(x for x in p if x["id"] == pid)
if not Path(wt).exists():
    subprocess.run(["git", "-C", "/repo", "worktree", "add", "-f", wt, "-b", f"mw-{pid}{tag}", "HEAD"], check=True, capture_output=True)
Path(out).mkdir(parents=True, exist_ok=True)
text = f"{p['title']}\n\n{p['statement']}\n\nIt is meant to hold {p['quantifier']['text']}."
t = (V / "tools" / "mutant_prompt.txt").read_text()
if tag:
    t = t.replace("Make the changes as different from each other as you can (different functions / mechanisms / triggering conditions).",
                  "Make the changes as different from each other as you can (different functions / mechanisms / triggering conditions). "
                  "At least one change must involve TWO cooperating sites (each edit harmless alone) or need a multi-step history / sequence of calls to manifest; "
                  "at least one must sit in a less obvious place through which the property is still reachable (a helper, an adapter, the command line, "
                  "a converter, a rarely used option or store kind, the other zarr format) rather than in the function the property most directly names; "
                  "prefer triggering conditions involving boundaries (empty / single element, dtype limits, unusual but legal names or layouts).")
print(t.replace("<<<PROPERTY>>>", text).replace("<<<N>>>", n).replace("<<<OUT>>>", out).replace("<<<WT>>>", wt))
