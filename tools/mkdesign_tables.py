#!/usr/bin/env python3
"""Rewrites the generated tables of DESIGN.md §11 (between the BEGIN/END GENERATED markers) from
known_findings*.json, tools/claims*.json, evidence/*.json and seeded/RESULTS.json."""
import json
import re
from pathlib import Path

V = Path(__file__).resolve().parent.parent


def load_findings():
    out = []
    p = V / "known_findings.json"
    if p.exists():
        out += json.loads(p.read_text())["findings"]
    for q in sorted((V / "known_findings.d").glob("*.json")):
        out += json.loads(q.read_text())["findings"]
    seen, uniq = set(), []
    for f in out:
        k = (f["property"], f["kind"], f["key"])
        if k not in seen:
            seen.add(k)
            uniq.append(f)
    return uniq


def esc(s):
    return str(s).replace("|", "\\|").replace("\n", " ")


def short(s, n=230):
    s = " ".join(str(s).split())
    return s if len(s) <= n else s[: n - 1] + "…"


def main():
    claims = json.loads((V / "tools/claims.json").read_text())
    for q in sorted((V / "tools/claims.d").glob("*.json")):
        claims.update(json.loads(q.read_text()))
    enabled = set((V / "tools/enabled.txt").read_text().split())
    lines = []
    # ---- status
    lines += ["### 11.2 Per-property status (generated)", "",
              "| id | claimed | theorems audited (last run on /repo) | correspondence cases (quick) | technique |",
              "|----|---------|------|------|-----------|"]
    for i in range(1, 21):
        pid = f"C{i:02d}"
        ev = V / "evidence" / f"{pid}.json"
        n_obl = cases = "–"
        if ev.exists():
            e = json.loads(ev.read_text())
            n_obl = f"{e['coverage'].get('discharged')}/{e['coverage'].get('obligations')}"
            cases = f"{e['coverage'].get('evaluations')} ({e['tier']})"
        c = claims.get(pid, {})
        lines.append(f"| {pid} | {'yes' if pid in enabled and c.get('claimed') else 'no'} | {n_obl} | {cases} | {esc(short(c.get('technique', ''), 160))} |")
    lines.append("")
    # ---- findings
    fs = load_findings()
    lines += ["### 11.3 Defects of geff found and their disposition (generated from the known-findings files)", "",
              "`fixed` = repaired by the named unguarded `fix:` commit(s) in /repo (the patch is kept under `fixes/`); the "
              "pre-fix failing input is a corpus case, so the defect is reported again if it returns. `known` = genuine "
              "violation recorded rather than repaired; the check prints `KNOWN-FINDING` for exactly that class.", "",
              "| property | kind | key | commit | what |", "|---|---|---|---|---|"]
    for f in sorted(fs, key=lambda f: (f["property"], f["kind"], f["key"])):
        lines.append(f"| {f['property']} | {f['kind']} | `{esc(f['key'])}` | {esc(f.get('commit', ''))} | {esc(short(f['what'], 420))} |")
    lines.append("")
    # ---- seeded
    rf = V / "seeded" / "RESULTS.json"
    if rf.exists():
        res = json.loads(rf.read_text())
        lines += ["### 11.4 Seeded property-breaking changes and which checks catch them (generated from seeded/RESULTS.json)", "",
                  "Each change was written by a fresh sub-agent that saw only the property text and a scratch worktree; it passes the "
                  "repo's test-suite and comes with a demonstration that fails only with the change (`seeded/<id>/`). "
                  "`concrete` = the check reported a failing input with a replay; `obligation` = only a broken proof obligation / "
                  "correspondence was reported (`no-failing-input-found`).", "",
                  "| id | property | what the change needs in order to manifest | result of `./check` (quick) |", "|---|---|---|---|"]
        for sid in sorted(res, key=lambda s: (s.split("-")[0], int(s.split("-")[1]))):
            r = res[sid]
            meta = json.loads((V / "seeded" / sid / "meta.json").read_text())
            outs = []
            for pid, c in r.get("checks", {}).items():
                if c["exit"] == 1:
                    outs.append(f"{pid}: caught ({'concrete' if c['concrete'] else 'obligation'})")
                elif c["exit"] == 0:
                    outs.append(f"{pid}: MISSED")
                else:
                    outs.append(f"{pid}: check error (exit {c['exit']})")
            lines.append(f"| {sid} | {r['property']} | {esc(short(meta['needs'], 300))} | {'; '.join(outs)} |")
        n = len(res)
        k = sum(1 for r in res.values() if r.get("caught"))
        lines += ["", f"Caught: {k} of {n}."]
        hist = V / "seeded" / "HISTORY.md"
        if hist.exists():
            lines += ["", hist.read_text().strip()]
    lines.append("")
    # ---- deepening / strengthening reports of round 3 (written by the builders, one file per property)
    reps = sorted((V / "tools" / "claims.d").glob("*.deepen.md"))
    if reps:
        lines += ["### 11.9 Round-3 reports per property (collected from tools/claims.d/*.deepen.md)", ""]
        for q in reps:
            pid = q.name.split(".")[0]
            body = q.read_text().strip()
            # demote the report's own headings below this section
            body = re.sub(r"^(#+) ", lambda m: "#" * min(6, len(m.group(1)) + 3) + " ", body, flags=re.M)
            lines += [f"#### {pid}", "", body, ""]
    d = (V / "DESIGN.md").read_text()
    block = "<!-- BEGIN GENERATED -->\n" + "\n".join(lines) + "\n<!-- END GENERATED -->"
    if "<!-- BEGIN GENERATED -->" in d:
        d = re.sub(r"<!-- BEGIN GENERATED -->.*?<!-- END GENERATED -->", lambda m: block, d, flags=re.S)
    else:
        d = d.rstrip() + "\n\n" + block + "\n"
    (V / "DESIGN.md").write_text(d)
    print("DESIGN.md tables regenerated")


main()
