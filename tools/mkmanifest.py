#!/usr/bin/env python3
"""Regenerates MANIFEST.json from tools/claims.json (one entry per claimed property)."""
import json
from pathlib import Path

V = Path(__file__).resolve().parent.parent
claims = json.loads((V / "tools" / "claims.json").read_text())
for q in sorted((V / "tools" / "claims.d").glob("*.json")):
    claims.update(json.loads(q.read_text()))
enabled = set((V / "tools" / "enabled.txt").read_text().split())
props = [json.loads(l) for l in (V / "properties.jsonl").read_text().splitlines() if l.strip()]
checks, na = [], []
for p in props:
    pid = p["id"]
    c = claims.get(pid)
    if c and c.get("claimed") and pid in enabled:
        checks.append({
            "property_id": pid,
            "quick_cmd": f"./check {pid} --tier quick",
            "thorough_cmd": f"./check {pid} --tier thorough",
            "evidence_file": f"evidence/{pid}.json",
            "replay_cmd_template": f"./check {pid} --replay {{path}}",
            "engine": "lean4-proof+correspondence",
            "level_claimed": {"category": "proof", "text": c["text"], "design_ref": c.get("design_ref", f"DESIGN.md §5 {pid}")},
            "level_note": c["note"],
            "technique": c["technique"],
        })
    else:
        na.append({"property_id": pid, "reason": (c or {}).get("reason") or "check still being built / not yet passing on /repo in this round; no claim is made yet"})
m = {
    "version": 1,
    "setup_cmd": "./setup.sh",
    "hooks": {
        "guard": "GEFF_VERIF",
        "enable": "none needed: stores are observed and faulted from outside (store subclasses), functions are imported and called directly; checks import the working tree via PYTHONPATH ($GEFF_REPO, default /repo)",
        "baseline_off_cmd": "cd /repo && /venv/bin/python -m pytest -ra -q -p no:cacheprovider --timeout=900 --continue-on-collection-errors",
        "source_commits": [],
        "add_only": True,
    },
    "engines": [{
        "name": "lean4-proof+correspondence",
        "path": "lean/ (models, proofs, property theorems, drivers) + harness/ (translator, correspondence, oracles)",
        "serves_properties": [c["property_id"] for c in checks],
        "kind_free_text": "Lean 4 theorems about executable models; models tied to /repo by a source->Lean translator (lean/Gen) and a differential correspondence harness driving compiled Lean drivers over a JSON-lines protocol",
    }],
    "checks": checks,
    "not_applicable": na,
    "notes": "fix: commits and known findings are listed in known_findings.json; see DESIGN.md",
}
(V / "MANIFEST.json").write_text(json.dumps(m, indent=1) + "\n")
print(f"MANIFEST.json: {len(checks)} claimed, {len(na)} not claimed")
