#!/usr/bin/env python3
"""Fill the `commit` field of kind:"fixed" entries in known_findings.d/*.json: the entry's `what`
names fixes/<patch>; the commit is the one in /repo whose subject equals the patch's Subject."""
import json, re, subprocess, email
from pathlib import Path
V = Path(__file__).resolve().parent.parent
log = subprocess.run(["git", "-C", "/repo", "log", "--format=%h\t%s"], capture_output=True, text=True).stdout.splitlines()
by_subject = {l.split("\t", 1)[1].strip(): l.split("\t", 1)[0] for l in log}
patch_commit = {}
for p in sorted((V / "fixes").glob("*.patch")):
    msg = email.message_from_string(p.read_text(errors="replace"))
    subj = re.sub(r"^\[PATCH[^\]]*\]\s*", "", " ".join((msg["Subject"] or "").split()))
    patch_commit[p.name] = by_subject.get(subj)
for f in sorted((V / "known_findings.d").glob("*.json")):
    d = json.loads(f.read_text()); ch = False; last = None
    for e in d["findings"]:
        if e.get("kind") != "fixed":
            continue
        names = re.findall(r"fixes/([A-Za-z0-9_.\-]+?\.patch|C\d\d-\d\d[\w\-]*)", e.get("what", "") + " " + e.get("patch", ""))
        commits = []
        for n in names:
            cands = [k for k in patch_commit if k.startswith(n.replace(".patch", "")[:6])] if not n.endswith(".patch") else [n]
            for k in cands:
                if patch_commit.get(k) and patch_commit[k] not in commits:
                    commits.append(patch_commit[k])
        if not commits and not e.get("commit") and re.search(r"same (patch|repair)", e.get("what", "")) and last:
            commits = last
        if commits:
            last = commits
        if commits and e.get("commit") != " ".join(commits):
            e["commit"] = " ".join(commits); ch = True
    if ch:
        f.write_text(json.dumps(d, indent=1, ensure_ascii=False) + "\n")
print({k: v for k, v in patch_commit.items()})
