#!/usr/bin/env python3
"""python3-vt tools/validate_evidence.py : validate MANIFEST.json and every evidence file against the schemas"""
import json, sys
from pathlib import Path
import jsonschema
V = Path(__file__).resolve().parent.parent
ms = json.load(open("/root/.vp/MANIFEST.schema.json")); es = json.load(open("/root/.vp/EVIDENCE.schema.json"))
m = json.load(open(V / "MANIFEST.json")); jsonschema.validate(m, ms)
bad = 0
for c in m["checks"]:
    f = V / c["evidence_file"]
    try:
        e = json.load(open(f)); jsonschema.validate(e, es)
        cov = e["coverage"]
        ok = cov.get("obligations") == cov.get("discharged") and e.get("violations", 0) == 0
        print(c["property_id"], "ok" if ok else "NOT-CLEAN", cov.get("discharged"), "/", cov.get("obligations"), "cases", cov.get("evaluations"))
    except Exception as ex:  # noqa
        bad += 1; print(c["property_id"], "INVALID", type(ex).__name__, str(ex)[:200])
sys.exit(1 if bad else 0)
